"""Reference interpreter of the abstract DTML programs (used by C09 and C14).

Deliberately small: it covers the conditional sub-language (C09) and the
try / raise / return sub-language (C14) and nothing of batching, sorting,
formatting or quoting.  Control flow is Python's own: a Try node is rendered
with a real try/except/else/finally, exceptions are real instances of the
same classes, dtml-return is a ModelReturn exception caught where a template
call ends.  It talks to its own RunEnv (a fresh copy of the same script and
fault plan), so its invocation history is comparable event by event with the
history of the real run.
"""
import ast

from . import env as E


class ModelReturn(Exception):
    def __init__(self, value):
        self.value = value


_UNDEF = object()


def tostr(v):
    if isinstance(v, str):
        return v
    return str(v)


class ObjFrame:
    """namespace frame standing for an object whose attributes are sites
    (InstanceDict over an env.Obj): a miss falls through to outer frames"""

    def __init__(self, name, attrs):
        self.name, self.attrs = name, attrs
        self.cache = {}


class MapFrame:
    """namespace frame standing for a caller mapping some of whose keys are
    computed on every access (env.Map with computed keys)"""

    def __init__(self, name, keys):
        self.name, self.keys = name, keys


class Model:
    def __init__(self, env, case, plain=None):
        self.env = env
        self.subs = case.get('subs', {})
        self.plain = dict(plain or {})      # top-level plain (non-site) names
        self.frames = []                    # list of dicts name -> value
        self.exc_depth = 0                  # dynamic try/except body nesting
        self.site_depth = {}                # (site, ordinal) -> exc_depth
        self.marks = []                     # per marker event: error binding

    # ---------------------------------------------------------- namespace
    def raw(self, name):
        for f in reversed(self.frames):
            if isinstance(f, ObjFrame):
                if name in f.attrs:
                    if name in f.cache:
                        return f.cache[name]
                    v = self.invoke('%s.%s' % (f.name, name))
                    if v is not E.UNDEF:
                        f.cache[name] = v
                        return v
                continue
            if isinstance(f, MapFrame):
                if name in f.keys:
                    v = self.invoke('%s.%s' % (f.name, name))
                    if v is not E.UNDEF:
                        return v
                continue
            if name in f:
                return f[name]
        if name in self.plain:
            return self.plain[name]
        if name in self.subs:
            return ('sub', name)
        if name in self.env.sites:
            return ('site', name)
        raise KeyError(name)

    def lookup(self, name):
        """md[name]: find and, when it is a namespace callable, call it"""
        v = self.raw(name)
        if isinstance(v, tuple) and len(v) == 2 and v[0] == 'site':
            return self.invoke(v[1])
        if isinstance(v, tuple) and len(v) == 2 and v[0] == 'sub':
            return self.call_sub(v[1])
        if isinstance(v, E.CallObj):
            # a callable value found in a namespace frame (a cached
            # condition, a let binding) is called, as any callable is
            return v()
        return v

    def invoke(self, site):
        k = self.env.counts.get(site, 0) + 1
        self.site_depth[(site, k)] = self.exc_depth
        if site[:2] in ('M_', 'N_'):
            self.marks.append((site, k, self.err_binding()))
        return self.env.invoke(site, None)

    def err_binding(self):
        try:
            t = self.raw('error_type')
        except KeyError:
            t = None
        try:
            v = self.raw('error_value')
        except KeyError:
            v = None
        return (t, describe_exc(v))

    def ref(self, c):
        how = c.get('how', 'name')
        if how in ('name', 'expr'):
            return self.lookup(c['site'])
        if how == 'call':
            v = self.raw(c['site'])
            if isinstance(v, tuple) and len(v) == 2 and v[0] == 'site':
                return self.invoke(v[1])
            if isinstance(v, E.CallObj):
                return v()
            raise TypeError('not callable')
        if how == 'getitem0':
            return self.raw(c['site'])
        if how == 'lit':
            return ast.literal_eval(c['lit'])
        raise AssertionError(how)

    # ------------------------------------------------------------ render
    def call_top(self, body):
        try:
            return ('val', self.body(body))
        except ModelReturn as r:
            return ('ret', r.value)

    def call_sub(self, name):
        spec = self.subs[name]
        pushed = 0
        if spec.get('defaults'):
            self.frames.append(dict(spec['defaults']))
            pushed = 1
        try:
            try:
                return self.body(spec['body'])
            except ModelReturn as r:
                return r.value
        finally:
            if pushed:
                self.frames.pop()

    def body(self, b):
        out = []
        for n in b['n']:
            s = getattr(self, 'n_' + n['k'])(n)
            if s:
                out.append(s)
        return ''.join(out)

    def n_text(self, n):
        return n['t']

    def n_var(self, n):
        return tostr(self.ref(n))

    n_sent = n_mark = n_var

    def n_sub(self, n):
        return tostr(self.call_sub(n['name']))

    def n_comment(self, n):
        return ''

    def cond(self, c, cache):
        if c.get('how', 'name') == 'name':
            name = c['site']
            try:
                v = self.lookup(name)
            except KeyError as e:
                if e.args[0] != name:
                    raise
                return None
            cache[name] = v
            return v
        return self.ref(c)

    def n_if(self, n):
        cache = {}
        self.frames.append(cache)
        try:
            for c in n['conds']:
                if self.cond(c['c'], cache):
                    return self.body(c['body'])
            if n.get('else') is not None:
                return self.body(n['else'])
            return ''
        finally:
            self.frames.pop()

    def n_unless(self, n):
        cache = {}
        self.frames.append(cache)
        try:
            if self.cond(n['c'], cache):
                return ''
            return self.body(n['body'])
        finally:
            self.frames.pop()

    def n_call(self, n):
        cache = {}
        self.frames.append(cache)
        try:
            v = self.cond(n['c'], cache)
            if n.get('truth_observable'):
                bool(v)
            return ''
        finally:
            self.frames.pop()

    def n_in(self, n):
        seq = self.ref(n['src'])
        if not seq:
            if n.get('else') is not None:
                return self.body(n['else'])
            return ''
        out = []
        for i, item in enumerate(seq):
            self.frames.append({'sequence-item': item, 'sequence-index': i})
            try:
                out.append(self.body(n['body']))
            finally:
                self.frames.pop()
        return ''.join(out)

    def n_with(self, n):
        if n.get('objattrs') is not None:
            self.ref(n['src'])
            self.frames.append(ObjFrame(n['src']['site'], n['objattrs']))
        elif n.get('mapkeys') is not None:
            self.ref(n['src'])
            self.frames.append(MapFrame(n['src']['site'], n['mapkeys']))
        else:
            self.frames.append(dict(n.get('binds', {})))
        try:
            return self.body(n['body'])
        finally:
            self.frames.pop()

    def n_let(self, n):
        d = {}
        self.frames.append(d)
        try:
            for name, c in n['args']:
                d[name] = self.ref(c)
            return self.body(n['body'])
        finally:
            self.frames.pop()

    def n_try(self, n):
        self.exc_depth += 1
        try:
            try:
                out = self.body(n['body'])
            finally:
                self.exc_depth -= 1
        except ModelReturn:
            raise
        except Exception as e:
            names = [c.__name__ for c in type(e).__mro__]
            for h in n['handlers']:
                if not h['names'] or any(x in names for x in h['names']):
                    break
            else:
                raise
            self.frames.append({'error_type': type(e).__name__,
                                'error_value': e})
            try:
                return self.body(h['body'])
            finally:
                self.frames.pop()
        else:
            if n.get('else') is not None:
                out = out + self.body(n['else'])
            return out

    def n_tryf(self, n):
        out = ''
        try:
            out = self.body(n['body'])
        finally:
            out = out + self.body(n['finally'])
        return out

    def n_raise(self, n):
        t = n['type']
        if 'name' in t:
            cls = E.EXC[t['name']]
        elif 'site' in t:
            cls = self.lookup(t['site'])
        else:
            cls = self.raw(t['expr'])
        v = self.body(n['body'])
        raise cls(v)

    def n_return(self, n):
        raise ModelReturn(self.ref(n['val']))


def describe_exc(v):
    if v is None:
        return None
    if isinstance(v, BaseException):
        return [type(v).__name__, [str(a) for a in v.args]]
    return ['?', repr(type(v))]


def describe(v):
    """comparable description of a rendered / returned value"""
    if v is None or isinstance(v, (str, int, float, bool)):
        return [type(v).__name__, v]
    if isinstance(v, bytes):
        return ['bytes', v.hex()]
    if isinstance(v, (list, tuple)):
        return [type(v).__name__, [describe(x) for x in v]]
    if isinstance(v, dict):
        return ['dict', sorted((str(k), describe(x)) for k, x in v.items())]
    n = getattr(v, '_name', None)
    if n is not None:
        return [type(v).__name__, n]
    if isinstance(v, type):
        return ['class', v.__name__]
    return ['object', type(v).__name__]
