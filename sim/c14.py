"""C14 -- try / except / else / finally, raise and return follow Python-like
control flow.

Engine A + reference interpreter.  Generated programs of nested try blocks,
raise and return tags inside every block kind run against the scripted
environment; per program the fault-free run is followed by EVERY (call-back
site x first/last invocation x exception class of the hierarchy / DTReturn),
then by seeded pairs.  Oracle: the final outcome, the ordered invocation
history of the call-back sites (which parts ran, how often, in what order) and
the error_type / error_value binding visible at every part marker must equal
those of the reference interpreter, whose control flow is Python's own.
"""
import copy
import hashlib

from . import core
from . import env as E
from . import model as M
from . import prog as P

PROP = 'C14'
LEVEL = 'fault_enumeration'
STEP_UNIT = 'call-back invocations (markers and fault sites called by the renderer)'
CHUNK = 2      # consecutive runs per forked child (core.worker)
CASE_TIMEOUT = 300
TIERS = {'quick': (2200, 170), 'thorough': (120000, 2400)}
PROBES = ['handler_by_exact_name', 'handler_by_base_class',
          'handler_by_second_level_base', 'handler_bare',
          'handler_via_multiple_inheritance', 'second_handler_selected',
          'unmatched_propagates', 'raise_in_handler', 'raise_in_else',
          'raise_in_finally', 'else_ran', 'else_skipped',
          'finally_with_pending_exception', 'finally_with_pending_return',
          'finally_overrides_with_return', 'return_through_handlers',
          'return_nontext_value', 'return_inside_sub_template',
          'raise_tag_by_name', 'raise_tag_by_expr', 'return_in_raise_body',
          'nested_try_depth3', 'base_exception_through_finally',
          'empty_handler_selected', 'impostor_class_same_name',
          'sub_template_reentered_while_unwinding',
          'error_binding_shadowed_by_inner_handler', 'pair_second_fault_fired']
RULE = ('programs: seeded ASTs of try/except*/else, try/finally, dtml-raise '
        '(builtin name or computed class, rendered body as message), '
        'dtml-return (str, int, None, list, object) placed inside if / '
        'unless / in / with / let / every try part / raise body / '
        'sub-templates, try nesting <= 3, handler lists over EA<-EAB<-EABC, '
        'EX, EMI(EAB,EX), KeyError, LookupError, ValueError, IndexError, '
        'Exception, bare; a marker call-back at the head of every part.  Per '
        'program: fault-free run, then every (site x first/last invocation x '
        '{EA, EAB, EABC, EX, EMI, KeyError, ValueError, IndexError, DTReturn}) '
        'singly, KeyboardInterrupt at sites outside every try/except body, '
        'and seeded pairs.  An evaluation is one program execution compared '
        'with the reference interpreter.  Non-trivial: an execution in which '
        'a fault fired inside a try block (or a raise/return tag ran) and at '
        'least one marker ran afterwards; distinct = distinct (program hash, '
        'fault plan).')
ASSUMPTIONS = [
    'the reference interpreter (sim/model.py) is trusted for the '
    'try/raise/return sub-language; its control flow is Python\'s own '
    'try/except/else/finally',
    'conditionals, loops, with and let are used in trivially true / constant '
    'form only, so their semantics cannot cause a C14 verdict',
    'not asserted: errors inside a dtml-raise body other than dtml-return; '
    'whether handlers see non-Exception BaseExceptions (KeyboardInterrupt is '
    'injected only outside try/except bodies, where it must pass through '
    'finally blocks)',
    'a call-back raising DTReturn stands for a dtml-return tag at that place '
    '(real dtml-return tags are generated as well)',
]

FAULT_CLASSES = ['EA', 'EAB', 'EABC', 'EX', 'EMI', 'KeyError', 'ValueError',
                 'IndexError', 'EAB~', 'EX~', 'ETY', 'TypeError', 'EFALSY',
                 'NotFound~']
HANDLER_POOL = ['EA', 'EAB', 'EABC', 'EX', 'EMI', 'KeyError', 'LookupError',
                'ValueError', 'IndexError', 'Exception', 'TypeError', 'ETY',
                'NotFound', 'EFALSY']
PLAIN = {'error_type': 'OUTER', 'X_EA': E.EA, 'X_EAB': E.EAB,
         'X_EABC': E.EABC, 'X_EX': E.EX, 'X_EMI': E.EMI, 'X_ETY': E.ETY,
         'SEQ2': ['p', 'q'], 'SEQ1': ['p'], 'SEQ0': []}


# --------------------------------------------------------------- generator

class Gen:
    def __init__(self, r, maxtry, width, swarm):
        self.r, self.maxtry, self.width, self.swarm = r, maxtry, width, swarm
        self.nb = self.ns = 0
        self.script = {}
        self.subs = {}
        self.nodes = 0
        self.force_quiet = []

    def site(self, prefix):
        self.ns += 1
        return '%s%d' % (prefix, self.ns)

    def bid(self):
        self.nb += 1
        return 'b%d' % (self.nb - 1)

    def mark(self, bid, prefix='M'):
        s = '%s_%s' % (prefix, bid)
        self.script[s] = {'tok': s}
        return {'k': 'mark', 'site': s}

    def body(self, depth, trydepth, noraise=False, minn=0):
        bid = self.bid()
        nodes = [self.mark(bid, 'N' if noraise else 'M')]
        n = self.r.randint(minn, max(minn, self.width))
        for _ in range(n):
            nodes.append(self.node(depth, trydepth, noraise))
        if self.r.random() < 0.3:
            nodes.append({'k': 'text', 't': self.r.choice(['z', '.e', ' w'])})
        return {'b': bid, 'n': nodes}

    def node(self, depth, trydepth, noraise):
        r = self.r
        self.nodes += 1
        if noraise:
            kinds = ['text', 'text', 'return', 'wrap']
            if depth > 5:
                kinds = ['text']
        else:
            kinds = ['text', 'fvar', 'fvar', 'fvar', 'raise', 'return', 'sub']
            if depth < 6 and self.nodes < 45:
                kinds += ['wrap', 'wrap']
                if trydepth < self.maxtry:
                    kinds += ['try', 'try', 'try', 'tryf', 'tryf']
        kinds = [k for k in kinds if k in self.swarm or k in ('text', 'fvar')]
        k = r.choice(kinds)
        if k == 'return' and r.random() < 0.55:
            k = 'fvar' if not noraise else 'text'
        if k == 'raise' and r.random() < 0.4:
            k = 'fvar'
        return getattr(self, 'n_' + k)(depth, trydepth, noraise)

    def n_text(self, depth, td, nr):
        return {'k': 'text', 't': self.r.choice(['a', 'bc ', 'x.y', '12:'])}

    def n_fvar(self, depth, td, nr):
        s = self.site('F')
        self.script[s] = {'tok': s}
        return {'k': 'var', 'site': s,
                'how': self.r.choice(['name', 'name', 'expr', 'call'])}

    def n_return(self, depth, td, nr):
        r = self.r
        s = self.site('NR' if nr else 'R')
        self.script[s] = r.choice([
            {'tok': s}, {'tok': s}, {'v': 5}, {'v': None}, {'v': ''},
            {'list': ['a', 'b']}, {'obj': {'a': 1}}])
        return {'k': 'return', 'val': {'site': s, 'how': r.choice(
            ['name', 'expr'])}}

    def n_raise(self, depth, td, nr):
        r = self.r
        t = r.choice([{'name': 'KeyError'}, {'name': 'ValueError'},
                      {'name': 'LookupError'}, {'name': 'IndexError'},
                      {'expr': 'X_EA'}, {'expr': 'X_EAB'}, {'expr': 'X_EABC'},
                      {'expr': 'X_EX'}, {'expr': 'X_EMI'}, 'site', 'site',
                      'site', {'name': 'TypeError'}, {'expr': 'X_ETY'},
                      {'name': 'AttributeError'}, {'name': 'NotFound'},
                      {'name': 'BadRequest'}])
        if t == 'site':
            s = self.site('NX')
            self.script[s] = {'rot': [{'exc': c} for c in r.sample(
                ['EA', 'EAB', 'EABC', 'EX', 'EMI', 'ValueError', 'EAB~', 'EX~',
                 'ETY', 'TypeError', 'EFALSY', 'NotFound~', 'KeyError~'],
                r.choice([1, 2, 3]))]}
            t = {'site': s}
        return {'k': 'raise', 'type': t,
                'body': self.body(depth + 1, td, noraise=True)}

    def n_sub(self, depth, td, nr):
        r = self.r
        if self.subs and (len(self.subs) >= 2 or r.random() < 0.4):
            done = sorted(k for k, v in self.subs.items() if v)
            if done:
                return {'k': 'sub', 'name': r.choice(done)}
            return self.n_fvar(depth, td, nr)
        name = 'T%d' % (len(self.subs) + 1)
        self.subs[name] = None
        saved = self.swarm
        self.swarm = [k for k in saved if k != 'sub']
        b = self.body(depth + 1, max(td, 1), minn=1)
        self.swarm = saved
        self.subs[name] = {'body': b,
                           'defaults': r.choice([{}, {'dflt': 'd'}])}
        if r.random() < 0.35:
            # bounded self-recursion, preferably out of a finally part: the
            # same tags run again while a return or an exception is pending
            # (never inside a dtml-raise body: errors there are not asserted)
            allb = [x for x in E.walk_bodies(b) if x[0]['n'] and
                    x[0]['n'][0].get('site', '')[:2] == 'M_']
            fins = [x[0] for x in allb if x[2] in ('finally', 'except')]
            tb = r.choice(fins or [x[0] for x in allb])
            quiet_tb = False
            if r.random() < 0.5:
                # the classic: a return (or raise) pending in a try body
                # while its finally part runs the same template again
                saved_sw = self.swarm
                self.swarm = [k for k in saved_sw if k != 'sub']
                node = self.n_tryf(depth + 1, 1, False)
                self.swarm = saved_sw
                rs = self.site('R')
                self.script[rs] = {'tok': rs}
                node['body']['n'].append(
                    {'k': 'return', 'val': {'site': rs, 'how': 'name'}}
                    if r.random() < 0.7 else
                    {'k': 'raise', 'type': {'name': 'ValueError'},
                     'body': {'b': self.bid(), 'n': [
                         {'k': 'text', 't': 'pending'}]}})
                b['n'].append(node)
                tb = node['finally']
            elif r.random() < 0.5:
                # a handler that runs the same template again: the try body
                # raises another class every time it runs, so the nested
                # activation handles an exception of its own in the very
                # same try tag while the outer handler is still going on
                saved_sw = self.swarm
                self.swarm = [k for k in saved_sw if k != 'sub']
                node = self.n_try(depth + 1, 1, False)
                if all(h['names'] for h in node['handlers']):
                    node['handlers'].append({'names': [], 'body': self.body(
                        depth + 2, 2)})
                self.swarm = saved_sw
                nx = self.site('NX')
                self.script[nx] = {'rot': [{'exc': c} for c in r.sample(
                    ['EA', 'EAB', 'EABC', 'EX', 'EMI', 'ValueError', 'ETY'],
                    r.choice([2, 3]))]}
                rb = self.bid()
                node['body']['n'].append(
                    {'k': 'raise', 'type': {'site': nx},
                     'body': {'b': rb, 'n': [self.mark(rb, 'N'),
                                             {'k': 'text', 't': 'again'}]}})
                b['n'].append(node)
                tb = r.choice([h['body'] for h in node['handlers']
                               if h['body']['n']])
                quiet_tb = r.random() < 0.6
            rc = self.site('NRC')
            self.script[rc] = [{'v': 1}, {'v': 1}, {'v': 0}]
            ib = self.bid()
            inner = {'b': ib, 'n': [self.mark(ib),
                                    {'k': 'sub', 'name': name}]}
            tb['n'].append({'k': 'if', 'conds': [{'c': {
                'site': rc, 'how': 'call'}, 'body': inner}], 'else': None})
            if quiet_tb:
                # nothing in this part looks at the error binding before the
                # nested call has come back (a look-up may be remembered)
                self.force_quiet += [x for x in E.all_sites(tb)
                                     if x[:2] in ('M_', 'N_')]
            if quiet_tb or r.random() < 0.6:
                # the part goes on after the nested call has come back: what
                # it sees of its own error binding then must still be its own
                tb['n'].append(self.mark(tb['b'] + 'post'))
            self.subs[name]['recursive'] = True
        return {'k': 'sub', 'name': name}

    def n_wrap(self, depth, td, nr):
        r = self.r
        k = r.choice(['if', 'unless', 'in', 'in', 'with', 'let', 'ifelse',
                      'inelse'])
        b = self.body(depth + 1, td, nr, minn=1)
        if k == 'if':
            return {'k': 'if', 'conds': [{'c': {'how': 'lit', 'lit': '1'},
                                          'body': b}], 'else': None}
        if k == 'ifelse':
            dead = {'b': self.bid(), 'n': [{'k': 'text', 't': 'DEAD'}]}
            return {'k': 'if', 'conds': [{'c': {'how': 'lit', 'lit': '0'},
                                          'body': dead}], 'else': b}
        if k == 'unless':
            return {'k': 'unless', 'c': {'how': 'lit', 'lit': '0'}, 'body': b}
        if k == 'in':
            return {'k': 'in', 'src': {'site': r.choice(['SEQ2', 'SEQ1']),
                                       'how': 'name'},
                    'opts': {}, 'body': b, 'else': None}
        if k == 'inelse':
            dead = {'b': self.bid(), 'n': [{'k': 'text', 't': 'DEAD'}]}
            return {'k': 'in', 'src': {'site': 'SEQ0', 'how': 'name'},
                    'opts': {}, 'body': dead, 'else': b}
        if k == 'with':
            return {'k': 'with', 'src': {'how': 'lit',
                                         'lit': '_.namespace(wv=1)'},
                    'binds': {'wv': 1}, 'body': b}
        return {'k': 'let', 'args': [['lv0', {'how': 'lit', 'lit': '1'}]],
                'body': b}

    def n_try(self, depth, td, nr):
        r = self.r
        hs = []
        for _ in range(r.choice([1, 1, 2, 2, 3])):
            hs.append({'names': r.sample(HANDLER_POOL, r.choice([1, 1, 1, 2])),
                       'body': self.body(depth + 1, td + 1)})
            if r.random() < 0.08:       # a handler with a really empty body
                hs[-1]['body'] = {'b': self.bid(), 'n': []}
        if r.random() < 0.3:
            # a bare handler, usually last but anywhere is legal: whatever
            # comes after it is never reached
            bare = {'names': [], 'body': self.body(depth + 1, td + 1)}
            if r.random() < 0.35:
                hs.insert(r.randrange(len(hs)), bare)
            else:
                hs.append(bare)
        return {'k': 'try', 'body': self.body(depth + 1, td + 1, minn=1),
                'handlers': hs,
                'else': self.body(depth + 1, td + 1)
                if r.random() < 0.5 else None}

    def n_tryf(self, depth, td, nr):
        return {'k': 'tryf', 'body': self.body(depth + 1, td + 1, minn=1),
                'finally': self.body(depth + 1, td + 1)}


ALL_KINDS = ['raise', 'return', 'sub', 'wrap', 'try', 'tryf']


def gen_case(seed, tier):
    r = core.stream(seed, 'c14')
    swarm = [k for k in ALL_KINDS if r.random() < 0.7]
    if 'try' not in swarm and 'tryf' not in swarm:
        swarm.append(r.choice(['try', 'tryf']))
    g = Gen(r, r.choice([1, 2, 2, 3, 3]), r.choice([1, 2, 2, 3]), swarm)
    top = g.body(0, 0, minn=1)
    # make sure a try block is present at the top level of most programs
    if not any(n['k'] in ('try', 'tryf') for n in top['n']):
        top['n'].append(g.n_try(1, 0, False) if 'try' in swarm
                        else g.n_tryf(1, 0, False))
    top['n'].append(g.mark(top['b'] + 'end'))
    subs = {k: v for k, v in g.subs.items() if v}
    # in half the programs some part markers do not look at the error
    # binding (a look-up is an observation that can itself settle a value
    # the package computes lazily): they only mark that the part ran
    rq = core.stream(seed, 'c14quiet')
    quiet = []
    if rq.random() < 0.5:
        marks = sorted({n for n in list(E.all_sites(top)) + [
            x for v in subs.values() for x in E.all_sites(v['body'])]
            if n[:2] in ('M_', 'N_')})
        quiet = [n for n in marks if rq.random() < 0.4]
    quiet = sorted((set(quiet) | set(g.force_quiet)) -
                   {n for n in quiet if n.endswith('post')})
    return {'kind': 'prog', 'body': top, 'subs': subs, 'script': g.script,
            'mode': r.choice(['top', 'top', 'sub']),
            'pair_seed': r.randint(0, 10 ** 9), 'plans': None,
            'quiet': quiet,
            'restricted': core.stream(seed, 'c14sec').random() < 0.25}


# ------------------------------------------------------------------ runner

class Env14(E.RunEnv):
    """records, at every marker, the error binding the namespace shows"""

    quiet = ()

    def invoke(self, name, md=None):
        if md is not None and name[:2] in ('M_', 'N_') and \
                name not in self.quiet:
            note = []
            for key in ('error_type', 'error_value'):
                try:
                    note.append(md.getitem(key, 0))
                except KeyError:
                    note.append(None)
            self.pending_note = (note[0], M.describe_exc(note[1])
                                 if note[1] is not None else None)
        else:
            self.pending_note = None
        n = len(self.log)
        try:
            return E.RunEnv.invoke(self, name, md)
        finally:
            if len(self.log) > n:
                self.log[n].note = self.pending_note


_RCLS = []


def restricted_class():
    """HTML with the package's own security mix-in, run inside a security
    context - the way every through-the-web DTML object is run (same set-up
    as the package's tests/testSecurity.py)"""
    if not _RCLS:
        from AccessControl.SecurityManagement import getSecurityManager
        from DocumentTemplate import HTML
        from DocumentTemplate.security import RestrictedDTML

        class RestrictedHTML(RestrictedDTML, HTML):
            def getOwner(self):
                return None

            def __call__(self, client=None, REQUEST={}, RESPONSE=None, **kw):
                security = getSecurityManager()
                security.addContext(self)
                try:
                    return HTML.__call__(self, client, REQUEST, **kw)
                finally:
                    security.removeContext(self)
        _RCLS.append(RestrictedHTML)
    return _RCLS[0]


def prepare(case):
    from DocumentTemplate import HTML
    src = E.body_src(case['body'])
    top = (restricted_class() if case.get('restricted') and
           case.get('mode') != 'sub' else HTML)(src)
    subs = {}
    names = list(E.all_sites(case['body']))
    for name, spec in sorted(case['subs'].items()):
        subs[name] = HTML(E.body_src(spec['body']), **dict(spec['defaults']))
        names += E.all_sites(spec['body'])
    names = sorted(set(n for n in names if n not in PLAIN))
    return {'top': top, 'subs': subs, 'names': names, 'src': src}


def run_real(case, prep, plan, shift=0):
    from DocumentTemplate._DocumentTemplate import TemplateDict
    env = Env14(case.get('script', {}), plan)
    env.quiet = frozenset(case.get('quiet') or ())
    env.shift = shift
    env.extra_names = dict(prep['subs'])
    env.extra_names.update(PLAIN)
    kw = env.namespace(prep['names'])
    try:
        if case.get('mode') == 'sub':
            md = TemplateDict()
            md._push({'pre1': 1})
            md.guarded_getattr = None
            md.guarded_getitem = None
            res = prep['top'](None, md, **kw)
        else:
            res = prep['top'](None, {'pre1': 1}, **kw)
        outcome = ['val', M.describe(res)]
        raw = res
    except BaseException as e:
        outcome = ['raise', type(e).__name__, [str(a) for a in e.args]]
        raw = None
    return env, outcome, raw


def run_model(case, prep, plan, shift=0):
    from DocumentTemplate.DT_Return import DTReturn
    env = E.RunEnv(case.get('script', {}), plan)
    env.shift = shift
    for n in prep['names']:
        env.site(n)
    m = ProbeModel(env, case, PLAIN)
    inv = m.invoke

    def invoke(site):
        try:
            return inv(site)
        except DTReturn as e:
            raise M.ModelReturn(e.v)
    m.invoke = invoke
    try:
        kind, v = m.call_top(case['body'])
        outcome = ['val', M.describe(v)]
        raw = (kind, v)
    except BaseException as e:
        outcome = ['raise', type(e).__name__, [str(a) for a in e.args]]
        raw = None
    return env, m, outcome, raw


def hist(env):
    return [[e.site, e.ordinal, (e.fired or {}).get('kind')] for e in env.log]


def compare(case, prep, plan, shift=0):
    renv, rout, rraw = run_real(case, prep, plan, shift)
    menv, m, mout, mraw = run_model(case, prep, plan, shift)
    v = []
    rh, mh = hist(renv), hist(menv)
    if rh != mh:
        i = 0
        while i < min(len(rh), len(mh)) and rh[i] == mh[i]:
            i += 1
        v.append({'rule': 'history', 'key': 'history',
                  'detail': {'first_difference_at': i,
                             'real': rh[max(0, i - 3):i + 4],
                             'model': mh[max(0, i - 3):i + 4]}})
    elif rout != mout:
        v.append({'rule': 'outcome', 'key': 'outcome:%s->%s'
                  % (mout[0], rout[0]),
                  'detail': {'real': rout, 'model': mout}})
    else:
        rm = [(e.site, e.ordinal, e.note) for e in renv.log
              if e.site[:2] in ('M_', 'N_') and e.md is not None]
        mm = [(s, k, (t, d)) for s, k, (t, d) in m.marks]
        mm = [(s, k, (t, d)) for s, k, (t, d) in mm]
        qt = frozenset(case.get('quiet') or ())
        rmn = [[s, k, list(n) if n else None] for s, k, n in rm
               if s not in qt]
        mmn = [[s, k, [t, d]] for s, k, (t, d) in mm if s not in qt]
        if rmn != mmn:
            i = 0
            while i < min(len(rmn), len(mmn)) and rmn[i] == mmn[i]:
                i += 1
            v.append({'rule': 'binding', 'key': 'binding',
                      'detail': {'real': rmn[i:i + 2],
                                 'model': mmn[i:i + 2]}})
        elif mraw is not None and mraw[0] == 'ret' and not isinstance(
                mraw[1], (str, int, type(None))):
            if not any(e.ans is rraw for e in renv.log):
                v.append({'rule': 'identity', 'key': 'identity',
                          'detail': {'real': rout}})
    for x in v:
        x['detail']['plan'] = plan
        x['detail']['shift'] = shift
        x['detail']['source'] = prep['src'][:1500]
        x['detail']['subs'] = {k: E.body_src(s['body'])[:300]
                               for k, s in case['subs'].items()}
    return renv, menv, m, mout, v


class ProbeModel(M.Model):
    """the model, with counters at the branches worth reaching"""

    def __init__(self, *a, **k):
        M.Model.__init__(self, *a, **k)
        self.hits = set()
        self.try_nest = 0
        self.in_sub = 0
        self.active = []

    def n_try(self, n):
        self.try_nest += 1
        if self.try_nest >= 3:
            self.hits.add('nested_try_depth3')
        try:
            return self._try(n)
        finally:
            self.try_nest -= 1

    def _try(self, n):
        self.exc_depth += 1
        try:
            try:
                out = self.body(n['body'])
            finally:
                self.exc_depth -= 1
        except M.ModelReturn:
            self.hits.add('return_through_handlers')
            raise
        except Exception as e:
            names = [c.__name__ for c in type(e).__mro__]
            for j, h in enumerate(n['handlers']):
                if not h['names'] or any(x in names for x in h['names']):
                    break
            else:
                self.hits.add('unmatched_propagates')
                raise
            if not h['names']:
                self.hits.add('handler_bare')
            elif names[0] in h['names']:
                self.hits.add('handler_by_exact_name')
            else:
                self.hits.add('handler_by_base_class')
                direct = [b.__name__ for b in type(e).__bases__]
                if not any(x in direct for x in h['names']):
                    self.hits.add('handler_by_second_level_base')
                if type(e) is E.EMI and 'EX' in h['names']:
                    self.hits.add('handler_via_multiple_inheritance')
            if j > 0:
                self.hits.add('second_handler_selected')
            if not h['body']['n']:
                self.hits.add('empty_handler_selected')
            if type(e) in (E.EAB_X, E.EX_A):
                self.hits.add('impostor_class_same_name')
            self.hits.add('else_skipped')
            if any('error_value' in f for f in self.frames):
                self.hits.add('error_binding_shadowed_by_inner_handler')
            self.frames.append({'error_type': type(e).__name__,
                                'error_value': e})
            try:
                try:
                    return self.body(h['body'])
                except M.ModelReturn:
                    raise
                except Exception:
                    self.hits.add('raise_in_handler')
                    raise
            finally:
                self.frames.pop()
        else:
            if n.get('else') is not None:
                self.hits.add('else_ran')
                try:
                    out = out + self.body(n['else'])
                except M.ModelReturn:
                    raise
                except Exception:
                    self.hits.add('raise_in_else')
                    raise
            return out

    def n_tryf(self, n):
        out = ''
        pending = None
        try:
            try:
                out = self.body(n['body'])
            except M.ModelReturn:
                pending = 'ret'
                raise
            except Exception:
                pending = 'exc'
                raise
            except BaseException:
                pending = 'base'
                raise
        finally:
            if pending == 'exc':
                self.hits.add('finally_with_pending_exception')
            elif pending == 'ret':
                self.hits.add('finally_with_pending_return')
            elif pending == 'base':
                self.hits.add('base_exception_through_finally')
            try:
                out = out + self.body(n['finally'])
            except M.ModelReturn:
                if pending:
                    self.hits.add('finally_overrides_with_return')
                raise
            except Exception:
                self.hits.add('raise_in_finally')
                raise
        return out

    def n_raise(self, n):
        self.hits.add('raise_tag_by_name' if 'name' in n['type']
                      else 'raise_tag_by_expr')
        try:
            return M.Model.n_raise(self, n)
        except M.ModelReturn:
            self.hits.add('return_in_raise_body')
            raise

    def n_return(self, n):
        try:
            M.Model.n_return(self, n)
        except M.ModelReturn as r:
            if not isinstance(r.value, str):
                self.hits.add('return_nontext_value')
            if self.in_sub:
                self.hits.add('return_inside_sub_template')
            raise

    def call_sub(self, name):
        import sys
        if self.in_sub and name in self.active and \
                sys.exc_info()[0] is not None:
            self.hits.add('sub_template_reentered_while_unwinding')
        self.in_sub += 1
        self.active.append(name)
        try:
            return M.Model.call_sub(self, name)
        finally:
            self.in_sub -= 1
            self.active.pop()


def run_case(case):
    prep = prepare(case)
    probes, faults = {}, {}
    violations = []
    nontrivial = set()
    evaluations = steps = 0
    dg = hashlib.sha256()
    phash = core.chash([prep['src'], sorted(case.get('subs', {}))])

    def probe(n):
        probes[n] = probes.get(n, 0) + 1

    prev = [None]

    def one(plan, shift=None):
        nonlocal evaluations, steps
        if shift is None:
            shift = evaluations
        renv, menv, m, mout, vs = compare(case, prep, plan, shift)
        evaluations += 1
        steps += len(renv.log)
        dg.update(repr((sorted(plan.items()), mout, hist(renv))).encode())
        for x in vs:
            x['detail']['prev'] = prev[0]
        prev[0] = {'plan': plan, 'shift': shift}
        for h in m.hits:
            probe(h)
        for (name, k, f) in renv.fired:
            kind = f['kind'] if f['kind'] != 'raise' else (
                'raise_base' if f['exc'] == 'KeyboardInterrupt' else 'raise')
            fk = 'cb.%s' % kind
            faults[fk] = faults.get(fk, 0) + 1
        if len(renv.fired) > 1:
            probe('pair_second_fault_fired')
        idx = next((i for i, e in enumerate(menv.log) if e.fired), None)
        interesting = (idx is not None and m.site_depth.get(
            (menv.log[idx].site, menv.log[idx].ordinal), 0) > 0) or (
            idx is None and {'raise_tag_by_name', 'raise_tag_by_expr',
                             'return_nontext_value'} & m.hits)
        if interesting and any(e.site[:1] == 'M' for e in menv.log[
                (idx or 0) + 1:]):
            nontrivial.add(core.chash([phash, plan]))
        return renv, menv, m, vs

    plans = case.get('plans')
    if plans is not None:
        for p in plans:
            renv, menv, m, vs = one(p['plan'], p['shift'])
            violations += vs
            if vs:
                break
    else:
        renv0, menv0, m0, vs = one({})
        violations += vs
        sites = {}
        for e in menv0.log:
            if e.site[:1] != 'N':
                sites[e.site] = e.ordinal
        r = core.stream(case['pair_seed'], 'pairs')
        single = []
        for name in sorted(sites):
            ords = ['1'] if sites[name] == 1 else ['1', str(sites[name])]
            for o in ords:
                for cls in FAULT_CLASSES:
                    single.append({name: {o: {'kind': 'raise', 'exc': cls}}})
                single.append({name: {o: {'kind': 'return'}}})
                if m0.site_depth.get((name, int(o)), 1) == 0:
                    single.append({name: {o: {'kind': 'raise',
                                              'exc': 'KeyboardInterrupt'}}})
        pair_src = []
        for plan in single:
            if violations:
                break
            renv, menv, m, vs = one(plan)
            violations += vs
            if menv.fired:
                idx = next(i for i, e in enumerate(menv.log) if e.fired)
                after = sorted({e.site for e in menv.log[idx + 1:]
                                if not e.fired and e.site[:1] != 'N'})
                if after:
                    pair_src.append((plan, after, {
                        e.site: e.ordinal for e in menv.log[idx + 1:]}))
        for plan, after, ords in r.sample(pair_src, min(len(pair_src), 16)):
            if violations:
                break
            name = r.choice(after)
            if name in plan:
                continue
            p2 = copy.deepcopy(plan)
            f2 = r.choice([{'kind': 'raise', 'exc': r.choice(FAULT_CLASSES)},
                           {'kind': 'return'}])
            p2[name] = {str(r.choice([1, ords[name]])): f2}
            renv, menv, m, vs = one(p2)
            violations += vs
    return {'violations': violations[:1], 'steps': steps, 'faults': faults,
            'probes': probes, 'nontrivial': sorted(nontrivial),
            'digest': dg.hexdigest()[:12], 'evaluations': evaluations}


def sample(case, res):
    return {'template': E.body_src(case['body']),
            'sub_templates': {k: [E.body_src(v['body']), v['defaults']]
                              for k, v in case['subs'].items()},
            'mode': case['mode'], 'executions': res['evaluations'],
            'example_fault_plan': {'F1': {'1': {'kind': 'raise',
                                                'exc': 'EAB'}}}}


# ---------------------------------------------------------------- shrinking

def pin(case, violation):
    d = violation.get('detail', {})
    if case.get('plans') is None and d.get('plan') is not None:
        runs = [{'plan': d['plan'], 'shift': d.get('shift', 0)}]
        if d.get('prev'):
            runs.insert(0, d['prev'])
        return dict(case, plans=runs)
    return None


def shrink(case):
    if case.get('plans') is None:
        yield dict(case, plans=[{'plan': {}, 'shift': 0}])
        return
    runs = case['plans']
    if len(runs) > 1:
        yield dict(case, plans=runs[1:])
    for c in P.shrink_prog(case):
        yield c
    for i, p in enumerate(runs):
        if len(p['plan']) > 1:
            for name in p['plan']:
                q = dict(p['plan'])
                del q[name]
                yield dict(case, plans=runs[:i] + [dict(p, plan=q)] +
                           runs[i + 1:])
        if p['shift']:
            yield dict(case, plans=runs[:i] + [dict(p, shift=0)] +
                       runs[i + 1:])
    if case.get('mode') != 'top':
        yield dict(case, mode='top')
