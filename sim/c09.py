"""C09 -- if / elif / else / unless render the first true branch, lazily and
evaluating once; dtml-call evaluates once and emits nothing.

Engine A + reference interpreter.  What the simulator owns here is the
environment's answer per invocation: every condition is a namespace call-back
whose answer changes from one invocation to the next (and from one execution
of the same cooked template to the next), may raise, or is armed to raise
although the property says it must never be reached.  Oracle: the ordered
invocation history of all call-backs and the output equal the reference
interpreter's; under a fired fault the comparison is cut after the first
fired fault (what happens after a raising condition is not stated).
"""
import hashlib
import re

from . import core
from . import env as E
from . import model as M
from . import prog as P

PROP = 'C09'
LEVEL = 'exploration'
STEP_UNIT = 'call-back invocations (conditions, branch markers, references)'
CHUNK = 16      # consecutive runs per forked child (core.worker)
CASE_TIMEOUT = 300
TIERS = {'quick': (24000, 170), 'thorough': (1200000, 2400)}
PROBES = ['computed_mapping_key_tested', 'seqobj_condition_value',
          'sub_template_called_with_client_path',
          'attribute_defined_by_side_effect_then_retested',
          'resumed_after_caught_fault', 'chain_len_ge3', 'first_true_not_first', 'else_taken',
          'nothing_rendered', 'cached_value_reused_in_body',
          'reuse_at_depth_ge2', 'reuse_inside_loop', 'reuse_in_sub_template',
          'reuse_as_inner_condition', 'shadowed_by_let', 'shadowed_by_with',
          'undefined_name_false', 'unless_rendered', 'unless_skipped',
          'call_evaluated', 'call_undefined', 'volatile_second_answer_differs',
          'armed_behind_true_condition', 'armed_in_unchosen_body',
          'armed_next_ordinal', 'condition_raised', 'bool_raised',
          'expr_condition_not_cached']
RULE = ('programs: seeded chains of 1-5 conditions (by name, expr="_[n]", '
        'expr="n()", undefined names, constants), unless, call, with bodies '
        'that re-reference condition names directly, inside nested '
        'conditionals, loops, let / with (also shadowing the name) and '
        'sub-templates, depth <= 4; a marker call-back at the head of every '
        'body.  Every condition answer rotates per invocation and per '
        'execution (truthy/falsy constants, volatile tokens, objects whose '
        '__bool__ is a call-back).  Per program: 4 fault-free executions '
        'with different truth assignments on one cooked template, one armed '
        'execution (every call-back the model does not reach, and the '
        'next-after-last invocation of every one it does, raises if reached), '
        'and one raising execution per reached condition.  Non-trivial: an '
        'execution in which a volatile named condition was re-referenced '
        'inside its chosen body, or a fault was armed behind a true '
        'condition / in an unchosen body; distinct = distinct (program hash, '
        'shift, plan).')
ASSUMPTIONS = [
    'the reference interpreter (sim/model.py) is trusted for the '
    'conditional sub-language',
    'comparison under a fired fault is cut after the first fired fault',
    'a KeyError carrying the condition\'s own name is never injected (the '
    'code treats it as "undefined")',
    'loops, let, with and sub-templates appear only as carriers of '
    'references (constant sequences, constant bindings)',
]

PLAIN = {'SEQ2': ['p', 'q'], 'SEQ1': ['p']}
TRUTHY = [{'v': 1}, {'v': 'yes'}, {'v': [0]}]
FALSY = [{'v': 0}, {'v': ''}, {'v': []}, {'v': None}]


class Gen:
    def __init__(self, r, maxdepth, width, swarm):
        self.r, self.maxdepth, self.width, self.swarm = r, maxdepth, width, swarm
        self.nb = 0
        self.script = {}
        self.subs = {}
        self.nodes = 0
        self.named = []     # sites usable as by-name (cached) conditions
        self.free = []      # sites used only through expressions / calls
        self.undef = ['U1', 'U2']
        for i in range(r.randint(1, 4)):
            self.named.append(self.newsite('C%d' % (i + 1), False))
        for i in range(r.randint(0, 3)):
            self.free.append(self.newsite('D%d' % (i + 1), True))
        self.calls = 0
        self.nw = 0
        self.enclosing = []  # named sites cached by an enclosing conditional

    def newsite(self, s, allow_boolobj):
        r = self.r
        answers = []
        for _ in range(r.choice([2, 3, 4])):
            x = r.random()
            if x < 0.25:
                answers.append({'tok': s})
            elif x < 0.29:
                # a value that is itself callable
                answers.append({'callobj': s})
            elif x < 0.31:
                # a one-shot iterator as the value (a cursor): true
                answers.append({'iterobj': s})
            elif x < 0.33:
                answers.append({'boolobj': s, 'truth': r.random() < 0.5})
            elif x < 0.40:
                # sequence-like value whose truth is its own business
                answers.append({'seqobj': s, 'truth': r.random() < 0.5,
                                'len': r.choice([0, 0, 2])})
            elif x < 0.7:
                answers.append(r.choice(TRUTHY))
            else:
                answers.append(r.choice(FALSY))
        self.script[s] = {'rot': answers}
        return s

    def bid(self):
        self.nb += 1
        return 'b%d' % (self.nb - 1)

    def body(self, depth, minn=0):
        bid = self.bid()
        m = 'B_%s' % bid
        self.script[m] = {'tok': m}
        nodes = [{'k': 'mark', 'site': m}]
        for _ in range(self.r.randint(minn, max(minn, self.width))):
            nodes.append(self.node(depth))
        return {'b': bid, 'n': nodes}

    def node(self, depth):
        r = self.r
        self.nodes += 1
        kinds = ['text', 'ref', 'ref', 'ref', 'call']
        if depth < self.maxdepth and self.nodes < 40:
            kinds += ['if', 'if', 'if', 'unless', 'wrap', 'shadow', 'sub',
                      'try', 'wobj', 'wmap']
        kinds = [k for k in kinds if k in self.swarm or k in ('text', 'ref')]
        return getattr(self, 'n_' + r.choice(kinds))(depth)

    def n_text(self, depth):
        return {'k': 'text', 't': self.r.choice(['a', 'bc ', 'x.y', '12:'])}

    def pick_ref(self):
        """a reference to a condition site: by name / _[n] for named sites
        (both see the conditional's cache), expression forms for free ones"""
        r = self.r
        pool = self.named * 3 + self.free
        s = r.choice(pool)
        if s in self.named:
            # prefer names cached by an enclosing conditional
            if self.enclosing and r.random() < 0.7:
                s = r.choice(self.enclosing)
            return {'site': s, 'how': r.choice(['name', 'name', 'expr'])}
        return {'site': s, 'how': r.choice(['expr', 'call'])}

    def n_ref(self, depth):
        c = self.pick_ref()
        return {'k': 'var', 'site': c['site'], 'how': c['how']}

    def cond(self):
        r = self.r
        x = r.random()
        if x < 0.08:
            return {'site': r.choice(self.undef), 'how': 'name'}
        if x < 0.13:
            return {'how': 'lit', 'lit': r.choice(['0', '1'])}
        if x < 0.75 or not self.free:
            s = r.choice(self.named)
            return {'site': s, 'how': 'name' if r.random() < 0.8 else 'expr'}
        return {'site': r.choice(self.free), 'how': r.choice(['expr', 'call'])}

    def n_if(self, depth):
        r = self.r
        conds = []
        n = r.choice([1, 1, 2, 2, 3, 4, 5])
        cached = []
        for _ in range(n):
            c = self.cond()
            saved = self.enclosing
            if c.get('how') == 'name' and c['site'] in self.named:
                cached.append(c['site'])
            self.enclosing = saved + cached
            conds.append({'c': c, 'body': self.body(depth + 1)})
            self.enclosing = saved
        els = None
        if r.random() < 0.5:
            saved = self.enclosing
            self.enclosing = saved + cached
            els = self.body(depth + 1)
            self.enclosing = saved
        return {'k': 'if', 'conds': conds, 'else': els}

    def n_unless(self, depth):
        c = self.cond()
        saved = self.enclosing
        if c.get('how') == 'name' and c['site'] in self.named:
            self.enclosing = saved + [c['site']]
        b = self.body(depth + 1)
        self.enclosing = saved
        return {'k': 'unless', 'c': c, 'body': b}

    def n_call(self, depth):
        r = self.r
        if r.random() < 0.1:
            return {'k': 'call', 'c': {'site': r.choice(self.undef),
                                       'how': 'name'}}
        self.calls += 1
        s = 'K%d' % self.calls
        self.script[s] = dict(r.choice([{'tok': s}, {'v': 0}, {'v': ''},
                                        {'v': None}, {'v': [1]}]))
        if r.random() < 0.5:
            # REQUEST.set(...) and the like: the mapping the template was
            # called with gains or loses a key
            self.script[s]['grow'] = r.choice([1, 1, -1])
        return {'k': 'call', 'c': {'site': s, 'how': r.choice(
            ['name', 'expr', 'call'])}}

    def n_wrap(self, depth):
        r = self.r
        k = r.choice(['in', 'in', 'with', 'let', 'letref'])
        if k == 'letref' and self.named:
            s = r.choice(self.enclosing or self.named)
            args = [['lv0', {'site': s, 'how': r.choice(['name', 'expr'])}]]
            return {'k': 'let', 'args': args, 'body': self.body(depth + 1)}
        b = self.body(depth + 1, minn=1)
        if k == 'in':
            # with prefix=P the loop's own variables answer for every name
            # that starts with P, and report a miss under another name
            opts = {'prefix': r.choice(['C', 'U', 'D', 'px'])} \
                if r.random() < 0.4 else {}
            return {'k': 'in', 'src': {'site': r.choice(['SEQ2', 'SEQ1']),
                                       'how': 'name'},
                    'opts': opts, 'body': b, 'else': None}
        if k == 'with':
            return {'k': 'with', 'src': {'how': 'lit',
                                         'lit': '_.namespace(wv=1)'},
                    'binds': {'wv': 1}, 'body': b}
        return {'k': 'let', 'args': [['lv0', {'how': 'lit', 'lit': '1'}]],
                'body': b}

    def n_shadow(self, depth):
        r = self.r
        s = r.choice(self.enclosing or self.named)
        saved = self.enclosing
        self.enclosing = [x for x in saved if x != s]
        b = self.body(depth + 1, minn=1)
        b['n'].insert(1, {'k': 'var', 'site': s, 'how': 'name'})
        self.enclosing = saved
        val = r.choice(['sh', ''])
        if r.random() < 0.5:
            return {'k': 'let', 'args': [[s, {'how': 'lit',
                                              'lit': "'%s'" % val}]],
                    'body': b, 'shadow': s}
        return {'k': 'with', 'src': {'how': 'lit', 'lit':
                                     "_.namespace(%s='%s')" % (s, val)},
                'binds': {s: val}, 'body': b, 'shadow': s}

    def n_wobj(self, depth):
        """an object namespace one of whose attributes only comes into
        being through a side effect of a later call: undefined (false) when
        tested first, defined when tested again"""
        r = self.r
        self.nw += 1
        w, attr = 'W%d' % self.nw, 'UA%d' % self.nw
        site = '%s.%s' % (w, attr)
        self.script[w] = {'obj': {}, 'sites': [attr]}
        self.script[site] = {'when_defined': r.choice(['yes', 1, 'val'])}
        self.calls += 1
        k = 'K%d' % self.calls
        self.script[k] = {'tok': k, 'defines': [site]}

        def test():
            x = r.random()
            c = {'site': attr, 'how': 'name'}
            if x < 0.5:
                return {'k': 'if', 'conds': [{'c': c, 'body': self.body(
                    depth + 2)}], 'else': self.body(depth + 2)
                    if r.random() < 0.6 else None}
            if x < 0.8:
                return {'k': 'unless', 'c': c, 'body': self.body(depth + 2)}
            return {'k': 'if', 'conds': [
                {'c': self.cond(), 'body': self.body(depth + 2)},
                {'c': c, 'body': self.body(depth + 2)}], 'else': None}
        b = self.body(depth + 1)
        nodes = [test() for _ in range(r.choice([1, 1, 2]))]
        nodes.append({'k': 'call', 'c': {'site': k, 'how': r.choice(
            ['name', 'expr', 'call'])}})
        nodes += [test() for _ in range(r.choice([1, 1, 2]))]
        b['n'] = b['n'][:1] + nodes + b['n'][1:]
        return {'k': 'with', 'src': {'site': w, 'how': 'name'},
                'objattrs': [attr], 'body': b}

    def n_wmap(self, depth):
        """a mapping namespace that computes the value of one key on every
        access: testing that name in a conditional is one evaluation"""
        r = self.r
        self.nw += 1
        w, key = 'WM%d' % self.nw, 'UM%d' % self.nw
        site = '%s.%s' % (w, key)
        self.script[w] = {'map': {}, 'computed': [key],
                          'miss': r.choice([None, None, 'bytes', 'bare',
                                            'msg'])}
        self.script[site] = {'rot': [r.choice(TRUTHY + [{'tok': site}]),
                                     r.choice(FALSY),
                                     r.choice(TRUTHY + FALSY)]}
        undef = r.random() < 0.3
        if undef:
            # now and then the key is not there at all when asked for (a
            # session that has not got it yet), and there the next time
            self.script[site]['rot'].insert(r.randrange(3), {'undef': 1})
        c = {'site': key, 'how': 'name'}

        def ref_body():
            b = self.body(depth + 2)
            # reference inside the body: cached.  (Not for a key that may be
            # missing when tested: nothing is cached then, and how often a
            # plain dtml-var looks at a computing mapping is not C09's
            # business - benign edit B2 looks twice)
            if r.random() < 0.7 and not undef:
                b['n'].append({'k': 'var', 'site': key, 'how': 'name'})
            return b
        nodes = []
        for _ in range(r.choice([1, 2, 2])):
            x = r.random()
            if x < 0.5:
                nodes.append({'k': 'if', 'conds': [{'c': c,
                                                    'body': ref_body()}],
                              'else': ref_body() if r.random() < 0.5
                              else None})
            elif x < 0.75:
                nodes.append({'k': 'unless', 'c': c, 'body': ref_body()})
            else:
                nodes.append({'k': 'if', 'conds': [
                    {'c': self.cond(), 'body': self.body(depth + 2)},
                    {'c': c, 'body': ref_body()}], 'else': None})
        b = self.body(depth + 1)
        b['n'] = b['n'][:1] + nodes + b['n'][1:]
        return {'k': 'with', 'src': {'site': w, 'how': 'name'},
                'mapping': True, 'mapkeys': [key], 'body': b}

    def n_try(self, depth):
        b = self.body(depth + 1, minn=1)
        if not any(n['k'] in ('if', 'unless') for n in b['n']):
            b['n'].append(self.n_if(depth + 1))
        h = self.body(depth + 1)
        hm = 'H_%s' % h['b']
        self.script[hm] = {'tok': hm}
        h['n'][0] = {'k': 'mark', 'site': hm}
        return {'k': 'try', 'body': b, 'handlers': [{'names': [], 'body': h}],
                'else': None}

    def n_sub(self, depth):
        r = self.r
        done = sorted(k for k, v in self.subs.items() if v)
        how = r.choice(['var', 'var', 'kw', 'client', 'clients2'])
        if done and (len(self.subs) >= 2 or r.random() < 0.4):
            return {'k': 'sub', 'name': r.choice(done), 'how': how}
        if len(self.subs) >= 2:
            return self.n_ref(depth)
        name = 'T%d' % (len(self.subs) + 1)
        self.subs[name] = None
        saved, savede = self.swarm, self.enclosing
        self.swarm = [k for k in saved if k != 'sub']
        b = self.body(max(depth + 1, self.maxdepth - 1), minn=1)
        self.swarm, self.enclosing = saved, savede
        self.subs[name] = {'body': b, 'defaults': r.choice([{}, {'dflt': 1}])}
        return {'k': 'sub', 'name': name, 'how': how}


ALL_KINDS = ['call', 'if', 'unless', 'wrap', 'shadow', 'sub', 'try', 'wobj',
             'wmap']


def gen_case(seed, tier):
    r = core.stream(seed, 'c09')
    swarm = [k for k in ALL_KINDS if r.random() < 0.7]
    if 'if' not in swarm and 'unless' not in swarm:
        swarm.append(r.choice(['if', 'unless']))
    g = Gen(r, r.choice([1, 2, 3, 3, 4]), r.choice([1, 2, 3]), swarm)
    top = g.body(0, minn=1)
    if not any(n['k'] in ('if', 'unless') for n in top['n']):
        top['n'].append(g.n_if(0) if 'if' in swarm else g.n_unless(0))
    subs = {k: v for k, v in g.subs.items() if v}
    return {'kind': 'prog', 'body': top, 'subs': subs, 'script': g.script,
            'mode': r.choice(['top', 'top', 'sub']), 'runs': None}


# ------------------------------------------------------------------ runner

def prepare(case):
    from DocumentTemplate import HTML
    src = E.body_src(case['body'])
    top = HTML(src)
    subs = {}
    names = list(E.all_sites(case['body']))
    for name, spec in sorted(case['subs'].items()):
        subs[name] = HTML(E.body_src(spec['body']), **dict(spec['defaults']))
        names += E.all_sites(spec['body'])
    names = sorted(set(n for n in names
                       if n not in PLAIN and n[:1] != 'U'))
    return {'top': top, 'subs': subs, 'names': names, 'src': src}


def run_real(case, prep, plan, shift):
    from DocumentTemplate._DocumentTemplate import TemplateDict
    env = E.RunEnv(case.get('script', {}), plan)
    env.shift = shift
    env.extra_names = dict(prep['subs'])
    env.extra_names.update(PLAIN)
    kw = env.namespace(prep['names'])
    try:
        env.shared_map = {'pre1': 1}
        if case.get('mode') == 'sub':
            md = TemplateDict()
            md._push(env.shared_map)
            md.guarded_getattr = None
            md.guarded_getitem = None
            res = prep['top'](None, md, **kw)
        else:
            res = prep['top'](None, env.shared_map, **kw)
        outcome = ['val', M.describe(res)]
    except BaseException as e:
        outcome = ['raise', type(e).__name__]
    return env, outcome


class Model9(M.Model):
    """the model, with counters at the branches worth reaching"""

    def __init__(self, *a, **k):
        M.Model.__init__(self, *a, **k)
        self.hits = set()
        self.caches = []        # cache dicts of the open conditionals
        self.loop = 0
        self.in_sub = 0
        self.unchosen = []      # bodies the model did not render
        self.skipped_conds = []  # conditions behind a true one

    def lookup(self, name):
        for f in reversed(self.frames):
            if isinstance(f, dict) and name in f:
                if any(f is c for c in self.caches):
                    self.hits.add('cached_value_reused_in_body')
                    if len(self.frames) - 1 - [
                            i for i, g in enumerate(self.frames)
                            if g is f][0] >= 2:
                        self.hits.add('reuse_at_depth_ge2')
                    if self.loop:
                        self.hits.add('reuse_inside_loop')
                    if self.in_sub:
                        self.hits.add('reuse_in_sub_template')
                    sc = self.env.script.get(name)
                    if isinstance(sc, dict) and 'rot' in sc and len(
                            {repr(x) for x in sc['rot']}) > 1:
                        self.hits.add('volatile_second_answer_differs')
                break
        return M.Model.lookup(self, name)

    def cond(self, c, cache):
        how = c.get('how', 'name')
        if how == 'name':
            name = c['site']
            if any(name in f for f in self.caches[:-1]):
                self.hits.add('reuse_as_inner_condition')
            try:
                v = self.lookup(name)
            except KeyError as e:
                if e.args[0] != name:
                    raise
                self.hits.add('undefined_name_false')
                return None
            cache[name] = v
            return v
        if how in ('expr', 'call'):
            self.hits.add('expr_condition_not_cached')
        return self.ref(c)

    def n_if(self, n):
        cache = {}
        self.frames.append(cache)
        self.caches.append(cache)
        try:
            if len(n['conds']) >= 3:
                self.hits.add('chain_len_ge3')
            for i, c in enumerate(n['conds']):
                if self.cond(c['c'], cache):
                    if i:
                        self.hits.add('first_true_not_first')
                    for later in n['conds'][i + 1:]:
                        self.skipped_conds.append(later['c'])
                        self.unchosen.append(later['body'])
                    if n.get('else') is not None:
                        self.unchosen.append(n['else'])
                    return self.body(c['body'])
                self.unchosen.append(c['body'])
            if n.get('else') is not None:
                self.hits.add('else_taken')
                return self.body(n['else'])
            self.hits.add('nothing_rendered')
            return ''
        finally:
            self.frames.pop()
            self.caches.pop()

    def n_unless(self, n):
        cache = {}
        self.frames.append(cache)
        self.caches.append(cache)
        try:
            if self.cond(n['c'], cache):
                self.hits.add('unless_skipped')
                self.unchosen.append(n['body'])
                return ''
            self.hits.add('unless_rendered')
            return self.body(n['body'])
        finally:
            self.frames.pop()
            self.caches.pop()

    def n_call(self, n):
        self.hits.add('call_evaluated')
        if n['c'].get('site', '')[:1] == 'U':
            self.hits.add('call_undefined')
        return M.Model.n_call(self, n)

    def n_in(self, n):
        self.loop += 1
        try:
            return M.Model.n_in(self, n)
        finally:
            self.loop -= 1

    def invoke(self, site):
        v = M.Model.invoke(self, site)
        if _ATTR_SITE.match(site) and v is not E.UNDEF:
            self.hits.add('attribute_defined_by_side_effect_then_retested')
        if site[:2] == 'WM' and '.' in site:
            self.hits.add('computed_mapping_key_tested')
        if isinstance(v, E.SeqObj):
            self.hits.add('seqobj_condition_value')
        return v

    def n_sub(self, n):
        if n.get('how') == 'clients2':
            self.hits.add('sub_template_called_with_client_path')
        return M.Model.n_sub(self, n)

    def n_let(self, n):
        if n.get('shadow'):
            self.hits.add('shadowed_by_let')
        return M.Model.n_let(self, n)

    def n_with(self, n):
        if n.get('shadow'):
            self.hits.add('shadowed_by_with')
        return M.Model.n_with(self, n)

    def call_sub(self, name):
        self.in_sub += 1
        try:
            return M.Model.call_sub(self, name)
        finally:
            self.in_sub -= 1


def run_model(case, prep, plan, shift):
    env = E.RunEnv(case.get('script', {}), plan)
    env.shift = shift
    for n in prep['names']:
        env.site(n)
    m = Model9(env, case, PLAIN)
    try:
        kind, v = m.call_top(case['body'])
        outcome = ['val', M.describe(v)]
    except BaseException as e:
        outcome = ['raise', type(e).__name__]
    return env, m, outcome


_ATTR_SITE = re.compile(r'^W\d+\.')


def hist(env):
    """attribute reads on object namespaces are not namespace-callable
    invocations: how often the library probes them is not compared"""
    return [[e.site, e.ordinal, (e.fired or {}).get('kind')] for e in env.log
            if not _ATTR_SITE.match(e.site)]


def first_fired(h):
    for i, x in enumerate(h):
        if x[2]:
            return i
    return None


def comparable(rh, mh):
    """the parts of both histories the property speaks about: everything
    up to and including the first fired fault; the rest only when both runs
    agree that the exception was caught by an enclosing dtml-try (next event
    is the same handler marker) -- then later conditionals are compared
    too, up to the next fired fault, and so on"""
    rc, mc = [], []
    ri = mi = 0
    cut = False
    while True:
        ir = first_fired(rh[ri:])
        im = first_fired(mh[mi:])
        if ir is None and im is None:
            rc += rh[ri:]
            mc += mh[mi:]
            return rc, mc, cut
        cut = True
        re_ = len(rh) if ir is None else ri + ir + 1
        me_ = len(mh) if im is None else mi + im + 1
        rc += rh[ri:re_]
        mc += mh[mi:me_]
        if rc != mc or re_ >= len(rh) or me_ >= len(mh):
            return rc, mc, cut
        if rh[re_] != mh[me_] or rh[re_][0][:2] != 'H_' or rh[re_][2]:
            return rc, mc, cut
        cut = False
        ri, mi = re_, me_


def classify(site):
    if site.endswith('.bool'):
        return 'truth-test'
    return {'B': 'branch-marker', 'H': 'handler-marker',
            'C': 'named-condition',
            'D': 'expression-condition', 'K': 'call-argument'}.get(site[:1], 'other')


def compare(case, prep, plan, shift):
    renv, rout = run_real(case, prep, plan, shift)
    menv, m, mout = run_model(case, prep, plan, shift)
    v = []
    rh, mh = hist(renv), hist(menv)
    rcmp, mcmp, cut = comparable(rh, mh)
    if rcmp != mcmp:
        i = 0
        while i < min(len(rcmp), len(mcmp)) and rcmp[i] == mcmp[i]:
            i += 1
        got = rcmp[i] if i < len(rcmp) else None
        want = mcmp[i] if i < len(mcmp) else None
        if got and got[2] and (not want or want[0] != got[0]):
            what = 'armed-fault-fired:' + classify(got[0])
        elif got and (not want or want[0] != got[0] or want[1] != got[1]):
            what = 'unexpected-invocation:' + classify(got[0])
        else:
            what = 'missing-invocation:' + classify((want or got)[0])
        v.append({'rule': 'history', 'key': 'history:' + what,
                  'detail': {'first_difference_at': i,
                             'real': rcmp[max(0, i - 3):i + 3],
                             'model': mcmp[max(0, i - 3):i + 3]}})
    elif not cut and rout != mout:
        v.append({'rule': 'output', 'key': 'output',
                  'detail': {'real': rout, 'model': mout}})
    if not cut and first_fired(rh) is not None and not v:
        m.hits.add('resumed_after_caught_fault')
    for x in v:
        x['detail']['plan'] = plan
        x['detail']['shift'] = shift
        x['detail']['source'] = prep['src'][:1500]
        x['detail']['subs'] = {k: E.body_src(s['body'])[:300]
                               for k, s in case['subs'].items()}
    return renv, menv, m, mout, v


def armed_plan(case, prep, menv, m):
    """arm everything the model did not reach, and the next invocation of
    everything it did reach: none of it may ever fire"""
    plan = {}
    counts = dict(menv.counts)
    kinds = {}
    for name in prep['names']:
        if name[:1] in 'BCDKH':
            k = counts.get(name, 0)
            if k == 0:
                plan[name] = {'*': {'kind': 'raise', 'exc': 'EX'}}
            else:
                plan[name] = {str(k + 1): {'kind': 'raise', 'exc': 'EX'}}
                kinds['armed_next_ordinal'] = 1
    for b in m.unchosen:
        if b['n'] and b['n'][0].get('site') in plan and \
                '*' in plan[b['n'][0]['site']]:
            kinds['armed_in_unchosen_body'] = 1
    for c in m.skipped_conds:
        s = c.get('site')
        if s in plan:
            kinds['armed_behind_true_condition'] = 1
    return plan, kinds


def run_case(case):
    prep = prepare(case)
    probes, faults = {}, {}
    violations = []
    nontrivial = set()
    evaluations = steps = 0
    dg = hashlib.sha256()
    phash = core.chash([prep['src'], sorted(case.get('subs', {}))])
    prev = [None]

    def probe(n):
        probes[n] = probes.get(n, 0) + 1

    def one(plan, shift, armed_kinds=None):
        nonlocal evaluations, steps
        renv, menv, m, mout, vs = compare(case, prep, plan, shift)
        evaluations += 1
        steps += len(renv.log)
        dg.update(repr((sorted(plan.items()), shift, mout,
                        hist(renv))).encode())
        for x in vs:
            x['detail']['prev'] = prev[0]
        prev[0] = {'plan': plan, 'shift': shift}
        for h in m.hits:
            probe(h)
        for (name, k, f) in renv.fired:
            fk = 'cb.bool_raise' if name.endswith('.bool') else 'cb.raise'
            faults[fk] = faults.get(fk, 0) + 1
            probe('bool_raised' if name.endswith('.bool')
                  else 'condition_raised')
        nt = False
        if armed_kinds is not None:
            faults['armed.never_reached'] = faults.get(
                'armed.never_reached', 0) + len(plan) - len(renv.fired)
            for k in armed_kinds:
                probe(k)
            nt = bool({'armed_in_unchosen_body',
                       'armed_behind_true_condition'} & set(armed_kinds))
        if {'cached_value_reused_in_body',
                'volatile_second_answer_differs'} <= m.hits:
            nt = True
        if nt:
            nontrivial.add(core.chash([phash, shift, plan]))
        return renv, menv, m, vs

    runs = case.get('runs')
    if runs is not None:
        for p in runs:
            renv, menv, m, vs = one(p['plan'], p['shift'])
            violations += vs
            if vs:
                break
    else:
        shift = 0
        for shift in range(4):
            if violations:
                break
            renv, menv, m, vs = one({}, shift)
            violations += vs
            if violations:
                break
            plan, kinds = armed_plan(case, prep, menv, m)
            renv2, menv2, m2, vs = one(plan, shift, kinds)
            violations += vs
            if shift >= 2:
                continue
            # one raising execution per reached condition / truth test
            seen = {}
            for e in menv.log:
                if e.site[:1] in 'CDK':
                    seen[e.site] = e.ordinal
            for name in sorted(seen):
                if violations:
                    break
                o = str(seen[name]) if shift else '1'
                renv3, menv3, m3, vs = one(
                    {name: {o: {'kind': 'raise', 'exc': 'EA'}}}, shift)
                violations += vs
    return {'violations': violations[:1], 'steps': steps, 'faults': faults,
            'probes': probes, 'nontrivial': sorted(nontrivial),
            'digest': dg.hexdigest()[:12], 'evaluations': evaluations}


def sample(case, res):
    return {'template': E.body_src(case['body']),
            'sub_templates': {k: [E.body_src(v['body']), v['defaults']]
                              for k, v in case['subs'].items()},
            'condition_scripts': {k: v for k, v in case['script'].items()
                                  if k[:1] in 'CD'},
            'mode': case['mode'], 'executions': res['evaluations']}


# ---------------------------------------------------------------- shrinking

def pin(case, violation):
    d = violation.get('detail', {})
    if case.get('runs') is None and d.get('plan') is not None:
        runs = [{'plan': d['plan'], 'shift': d.get('shift', 0)}]
        if d.get('prev'):
            runs.insert(0, d['prev'])
        return dict(case, runs=runs)
    return None


def shrink(case):
    if case.get('runs') is None:
        return
    runs = case['runs']
    if len(runs) > 1:
        yield dict(case, runs=runs[1:])
    for c in P.shrink_prog(case):
        yield c
    for i, p in enumerate(runs):
        for name in list(p['plan']):
            q = dict(p['plan'])
            del q[name]
            yield dict(case, runs=runs[:i] + [dict(p, plan=q)] + runs[i + 1:])
    for name, sc in case['script'].items():
        if isinstance(sc, dict) and 'rot' in sc and len(sc['rot']) > 1:
            for j in range(len(sc['rot'])):
                s2 = dict(case['script'])
                s2[name] = {'rot': sc['rot'][:j] + sc['rot'][j + 1:]}
                yield dict(case, script=s2)
    if case.get('mode') != 'top':
        yield dict(case, mode='top')
