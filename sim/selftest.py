"""./check selftest determinism [runs-per-property]
./check selftest sensitivity [dir ...]       (default: every seeded/* and benign/*)

determinism: every check is run several times on the same seeds in fresh
interpreters -- twice with 16 workers, once with 3 workers, once under another
PYTHONHASHSEED -- and the batch digests (sha256 over the per-run event-log
digests, ordered by run index) must be identical.

sensitivity: each seeded defect (seeded/<id>/patch.diff) is applied to a
scratch copy of the repository outside /repo and /verif (removed afterwards)
and the quick check of the property it targets must report a VIOLATION; each
behaviour-preserving edit (benign/<id>/patch.diff) must leave EVERY quick
check green.
"""
import json
import os
import shutil
import subprocess
import sys
import tempfile

from . import core

PROPS = ['C08', 'C09', 'C12', 'C14', 'C17', 'C18', 'C20']
CLI = os.path.join(core.VERIF, 'sim', 'cli.py')
DEFAULT_RUNS = {'C08': 400, 'C09': 1500, 'C12': 6000, 'C14': 200,
                'C17': 2000, 'C18': 64, 'C20': 1500}


LAST_COUNTS = [None]


def run_check(prop, runs, workers, hashseed, repo=None, tier='quick',
              seed=None):
    d = tempfile.mkdtemp(prefix='verif-selftest-')
    env = dict(os.environ)
    env.pop('VERIF_RUNS', None)
    if runs:
        env['VERIF_RUNS'] = str(runs)
    env.update(VERIF_WORKERS=str(workers),
               PYTHONHASHSEED=str(hashseed), VERIF_EVIDENCE_DIR=d,
               PYTHONDONTWRITEBYTECODE='1')
    if repo:
        env['VERIF_REPO'] = repo
    if seed is not None:
        env['VERIF_SEED'] = str(seed)
    try:
        r = subprocess.run([sys.executable, '-B', CLI, prop, tier],
                           capture_output=True, text=True, env=env,
                           timeout=3000)
        ev = {}
        f = os.path.join(d, prop + '.json')
        if os.path.exists(f):
            ev = json.load(open(f))
        LAST_COUNTS[0] = (ev.get('coverage', {}).get('evaluations'),
                          ev.get('coverage', {}).get('cases_generated'),
                          ev.get('coverage', {}).get('logical_steps'))
        return r.returncode, ev.get('coverage', {}).get('batch_digest'), \
            r.stdout + r.stderr
    finally:
        shutil.rmtree(d, ignore_errors=True)


def determinism(argv):
    scale = float(argv[0]) if argv else 1.0
    bad = 0
    for prop in PROPS:
        n = max(8, int(DEFAULT_RUNS[prop] * scale))
        results = []
        for label, workers, hs, seed in (('16 workers', 16, 0, None),
                                         ('16 workers again', 16, 0, None),
                                         ('3 workers', 3, 0, None),
                                         ('PYTHONHASHSEED=12345', 16, 12345,
                                          None),
                                         ('VERIF_SEED=7', 16, 0, 7),
                                         ('VERIF_SEED=7 again, 5 workers', 5,
                                          0, 7)):
            rc, dg, out = run_check(prop, n, workers, hs, seed=seed)
            results.append((label, rc, dg, seed, hs, LAST_COUNTS[0]))
            if rc not in (0,):
                print(out[-2000:])
        base = {}
        ok = True
        for label, rc, dg, seed, hs, counts in results:
            b = base.setdefault(seed, (rc, dg, counts))
            same = (rc, dg) == b[:2] and dg is not None
            note = '' if same else '<-- DIFFERS'
            if not same and hs != 0 and (rc, counts) == (b[0], b[2]):
                # another hash seed changes the order in which a multi-name
                # expression looks its names up (RestrictedPython keeps them
                # in a set), hence which line a schedule stops at: the event
                # log may differ there, verdict, evaluations, cases and step
                # count must not (every check re-execs itself with
                # PYTHONHASHSEED=0, so replay never sees this)
                same = True
                note = ('(event log differs in name look-up order only: '
                        'same verdict, evaluations, cases, steps)')
            ok = ok and same
            print('  %s %-32s exit=%d digest=%s %s'
                  % (prop, label, rc, dg, note))
        print('%s determinism over %d runs x %d executions: %s'
              % (prop, n, len(results), 'OK' if ok else 'FAILED'))
        bad += not ok
    return 1 if bad else 0


def scratch_repo(patch):
    d = tempfile.mkdtemp(prefix='verif-scratch-')
    shutil.copytree(os.path.join(core.REPO, 'src'), os.path.join(d, 'src'),
                    ignore=shutil.ignore_patterns('__pycache__', '*.pyc'))
    r = subprocess.run(['patch', '-p1', '-s', '-i', os.path.abspath(patch)],
                       cwd=d, capture_output=True, text=True)
    if r.returncode:
        shutil.rmtree(d, ignore_errors=True)
        return None, r.stdout + r.stderr
    return d, ''


def sensitivity(argv):
    dirs = argv or sorted(
        [os.path.join(core.VERIF, 'seeded', x)
         for x in os.listdir(os.path.join(core.VERIF, 'seeded'))] +
        [os.path.join(core.VERIF, 'benign', x)
         for x in os.listdir(os.path.join(core.VERIF, 'benign'))]
        if os.path.isdir(os.path.join(core.VERIF, 'benign')) else
        [os.path.join(core.VERIF, 'seeded', x)
         for x in os.listdir(os.path.join(core.VERIF, 'seeded'))])
    bad = 0
    for d in dirs:
        d = d.rstrip('/')
        meta = {}
        mf = os.path.join(d, 'meta.json')
        if os.path.exists(mf):
            meta = json.load(open(mf))
        benign = os.path.basename(os.path.dirname(d)) == 'benign'
        repo, err = scratch_repo(os.path.join(d, 'patch.diff'))
        if repo is None:
            print('%-10s PATCH DOES NOT APPLY: %s' % (os.path.basename(d),
                                                      err.strip()[:200]))
            bad += 1
            continue
        try:
            if benign:
                res = []
                for prop in PROPS:
                    rc, dg, out = run_check(prop, DEFAULT_RUNS[prop] * 2, 16,
                                            0, repo)
                    res.append((prop, rc))
                ok = all(rc == 0 for _, rc in res)
                print('%-10s benign: %s %s' % (
                    os.path.basename(d), 'all green' if ok else 'ALARM',
                    '' if ok else res))
                bad += not ok
            else:
                targets = meta.get('detected_by_checks') or [
                    meta.get('property') or os.path.basename(d)[:3]]
                res = []
                for prop in targets:
                    # (a few changes are only within reach of the thorough
                    # tier: meta.json says which slice of it)
                    rc, dg, out = run_check(
                        prop, meta.get('detect_runs', 0), 16, 0, repo,
                        tier=meta.get('detect_tier', 'quick'))
                    res.append((prop, rc))
                ok = any(rc == 1 for _, rc in res)
                print('%-10s seeded: %s %s' % (
                    os.path.basename(d), 'caught' if ok else 'MISSED', res))
                bad += not ok
        finally:
            shutil.rmtree(repo, ignore_errors=True)
    return 1 if bad else 0


def main(argv):
    if not argv:
        print(__doc__)
        return 2
    if argv[0] == 'determinism':
        return determinism(argv[1:])
    if argv[0] == 'sensitivity':
        return sensitivity(argv[1:])
    print(__doc__)
    return 2
