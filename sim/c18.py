"""C18 -- concurrent renders of one shared template give sequential results.

Engine B.  2-3 REAL threads call one shared template object (fresh and
uncooked in most runs, so the first renders race to compile it), each with
its own inputs.  A seeded scheduler (sim/sched.py) decides at every source
line executed inside the package -- optionally at every opcode -- and at
every acquisition of a package-created lock which thread runs next.  Oracle:
every thread's outcome equals the outcome of the same call made alone on a
fresh template of the same tree; deadlock and lack of progress are
violations as well ("every thread obtains exactly the result ...").
"""
import hashlib
import os
import re

from . import core
from . import env as E
from . import model as M
from . import sched as S

PROP = 'C18'
LEVEL = 'exploration'
STEP_UNIT = ('pre-emption points: line events inside DocumentTemplate / '
             'TreeDisplay / RestrictedPython.Eval, plus call-back yields')
CASE_TIMEOUT = 600
TIERS = {'quick': (800, 170), 'thorough': (40000, 2400)}
PROBES = ['compile_race_second_thread_blocked_on_cooklock',
          'preempted_inside_cook', 'preempted_inside_render',
          'three_threads', 'precooked_template', 'restricted_eval_variant',
          'strategy_one_preemption',
          'strategy_two_preemptions', 'strategy_pct', 'strategy_random_walk',
          'strategy_write_biased', 'strategy_lock_barrier',
          'strategy_handover', 'strategy_store_split',
          'handover_thread_parked_after_the_write',
          'all_threads_parked_in_front_of_the_compile_lock',
          'switch_right_after_attribute_write',
          'one_thread_failed_others_fine', 'parse_error_template',
          'sort_expr_per_thread', 'shared_sub_template', 'tree_tag',
          'callback_yield_switch', 'second_call_of_a_thread',
          'tree_cookie_protocol', 'two_threads_carry_the_same_tree_s',
          'tree_click_request']
RULE = ('templates: generator-A programs over every block tag (per-thread '
        'call-back answers, tokens carry the thread tag) and compositions '
        'of hand-written fragments (sort_expr / reverse_expr / batch '
        'parameters / let / with / try / statistics / nested shared '
        'sub-template) with per-thread plain inputs; the tree tag with its '
        'real cookie protocol (every thread a browser tab that clicked its '
        'way to a state beforehand and now sends its next request; tabs of '
        'one browser carry the same tree-s string); 2-3 threads; template '
        'uncooked in ~70% of the cases; plain HTML and a subclass with '
        'permissive guards (restricted Eval path); a few unparsable '
        'sources.  Per case a batch of schedules: one pre-emption at a '
        'point chosen uniformly over the DISTINCT lines of the first '
        'thread\'s solo profile (without replacement), two pre-emptions, '
        'PCT with 1-3 change points, random walks with switch probability '
        '0.5 .. 0.005, write-biased, and "race to the lock" (every thread is '
        'parked in front of its first package lock before anybody takes it, '
        'then a random walk or write-biased), and "hand-over": one thread '
        'is parked right after a chosen write line (each distinct storing '
        'line of its solo profile in turn), optionally after a race to the '
        'lock in which another thread went first and released it, and (store '
        'mode) "store split": a thread is parked in front of a store '
        'instruction, after the reads of that line, while another runs into '
        'the middle of its call; 30% of the cases render the shared template '
        'once before the race.  An '
        'evaluation is one schedule '
        'executed; after every schedule each call is made once more on '
        'the same template, one at a time, and must still give the solo '
        'result.  Non-trivial: a schedule in which at least one '
        'pre-emption happened while the pre-empted thread was inside the '
        'package (not at its start or end); distinct = distinct '
        '(case hash, switch list).')
ASSUMPTIONS = [
    'pre-emption granularity is the source line plus a yield inside every '
    'scripted call-back; in store mode (a fifth of the cases) also the '
    'instruction in front of every attribute / item store of package code '
    '(tracing every opcode of every frame crashes CPython 3.12.1 and is '
    'not used); C-level operations are atomic under the GIL',
    'package-created locks are simulated through the import-time '
    'threading.Lock / RLock factory; locks created elsewhere are real and '
    'never contended (only one worker runs at any instant)',
    'the oracle is the real code itself run alone on a fresh template, in '
    'a forked child process in which nothing else has been rendered; every '
    'case runs in its own forked child, starting from the interpreter state '
    'right after warm-up',
]

FOREVER = S.INF
WRITES = []        # per thread: source lines of the solo run that store
STEP_BUDGET = 25 * 10 ** 6     # per case (deterministic, unlike wall time)


# --------------------------------------------------------------- generator

def gen_case(seed, tier):
    from . import c08
    from . import c17
    r = core.stream(seed, 'c18')
    family = r.choice(['gen', 'gen', 'gen', 'hand', 'hand', 'tree'])
    k = r.choice([2, 2, 2, 3])
    case = {'family': family, 'nthreads': k,
            'precooked': r.random() < 0.3,
            'restricted': r.random() < 0.25,
            # opcode-granular tracing crashes CPython 3.12.1 (segfault in
            # instruction instrumentation with several threads): not used
            'opcode': 'store' if core.stream(seed, 'c18op').random() < float(
                os.environ.get('VERIF_C18_STOREP', '0.2')) else False,
            'bad_source': r.random() < 0.05,
            'nsched': r.choice([12, 20, 30]) if tier == 'quick'
            else r.choice([30, 60, 100]),
            'sched_seed': r.randint(0, 10 ** 9), 'segments': None,
            'calls': r.choice([1, 1, 2]),
            'via_mapping': core.stream(seed, 'c18map').random() < 0.3,
            # the steady state of a server: the shared template has served a
            # request before the racing ones arrive
            'prerendered': core.stream(seed, 'c18pre').random() < 0.3,
            'exhaust_one': tier == 'thorough' and r.random() < 0.3,
            'exhaust_handover': tier == 'thorough' and r.random() < 0.5}
    if family == 'tree':
        gen_tree_family(r, case)
    elif family == 'gen':
        enabled = [x for x in c08.ALL_KINDS if r.random() < 0.6]
        for must in ('var', r.choice(['in', 'with', 'let', 'try', 'sub',
                                      'if'])):
            if must not in enabled:
                enabled.append(must)
        if 'tree' in enabled and r.random() < 0.6:
            enabled.remove('tree')
        for x in ('return', 'raise'):
            if x in enabled and r.random() < 0.5:
                enabled.remove(x)
        g = c08.Gen(r, enabled, r.choice([1, 2, 3]), r.choice([1, 2, 3]))
        body = g.body(0, minn=1)
        subs = {n: {'src': E.body_src(v['body']), 'defaults': v['defaults'],
                    'names': sorted(set(E.all_sites(v['body'])))}
                for n, v in g.subs.items() if v}
        names = set(E.all_sites(body))
        for v in subs.values():
            names |= set(v['names'])
        # make the per-thread answers differ: rotate list-valued sort specs
        script = {}
        for name, resp in g.script.items():
            if name[:1] == 'X' and isinstance(resp, dict) and 'v' in resp:
                if resp['v'] in (0, 1):
                    resp = {'rot': [{'v': 0}, {'v': 1}]}
                else:
                    resp = {'rot': [{'v': resp['v']}, {'v': 'n'},
                                    {'v': 'a/cmp/desc'}]}
            elif name[:1] == 'Z':
                resp = {'rot': [resp, {'v': 1}, {'v': 2}]}
            script[name] = resp
        case.update(src=E.body_src(body), script=script, req=g.req,
                    names=sorted(names), subs=subs)
        case['threads'] = [{'shift': i, 'plan': None} for i in range(k)]
        if r.random() < 0.25 and names:
            victim = r.randrange(k)
            site = r.choice(sorted(names))
            case['threads'][victim]['plan'] = {site: {'1': {
                'kind': 'raise', 'exc': r.choice(['EA', 'KeyError'])}}}
    else:
        case['src'] = c17.gen_source(r)
        case['with_sub'] = r.random() < 0.6
        case['threads'] = []
        for i in range(k):
            spec = c17.gen_inputs(r)
            spec['recs'] = [[a + '@%d' % i, n] for a, n in spec['recs']]
            spec['x'] = spec['x'] + '@%d' % i
            case['threads'].append({'inputs': spec, 'plan': (
                {str(r.choice([1, 2])): 'raise'} if r.random() < 0.15
                else None)})
    if case['bad_source'] and family != 'tree':
        case['src'] += r.choice(['<dtml-if x>', '<dtml-in seq>', '</dtml-if>',
                                 '<dtml-var "1+">', '<dtml-var expr="1 +">',
                                 '<dtml-in seq sort_expr="1 +"></dtml-in>',
                                 '<dtml-if expr="(">x</dtml-if>'])
    return case


def gen_tree_family(r, case):
    """the tree tag with its real cookie protocol: every thread is a
    browser tab that has clicked its way to some state (sequentially,
    beforehand) and now sends its next request while the others send
    theirs.  Tabs of one browser share the cookie jar, so two threads may
    carry the very same tree-s string with different tree-e / tree-c
    arguments."""
    from . import c20
    k = case['nthreads']
    ntrees = 1 if r.random() < 0.65 else k
    case['trees'] = [c20.gen_tree(r, r.choice([3, 5, 7, 12]),
                                  r.choice([2, 3, 4]))
                     for _ in range(ntrees)]
    opts = {}
    if r.random() < 0.2:
        opts['branches'] = 'kids_m'
    elif r.random() < 0.25:
        opts['branches_expr'] = 'kidsof(idx)'
    if r.random() < 0.15:
        opts['sort'] = 'skey'
    if r.random() < 0.15:
        opts['reverse'] = 1
    if r.random() < 0.15:
        opts['assume_children'] = 1
    opts['src'] = r.choice(['name', 'name', 'expr'])
    case['opts'] = opts
    case['src'] = r.choice(['', 'T:']) + c20.template_src(opts) + \
        r.choice(['', '<dtml-var pre1>'])
    case['bad_source'] = False
    case['restricted'] = False
    # header / footer documents the tag looks up by name in the namespace of
    # the render: every thread brings its own
    case['docs'] = core.stream(case['sched_seed'], 'c18docs').random() < 0.3
    if case['docs']:
        case['src'] = case['src'].replace('<dtml-tree ', '<dtml-tree '
                                          'header=hdr footer=ftr ', 1)

    def op():
        x = r.random()
        if x < 0.12:
            return {'op': 'expand_all'}
        if x < 0.18:
            return {'op': 'collapse_all'}
        if x < 0.30:
            return {'op': 'reload'}
        return {'op': 'click', 'i': r.randint(0, 60),
                'prefer': r.choice(['any', 'e', 'e', 'c', 'deep'])}
    ths = []
    for i in range(k):
        share = None
        if i and ntrees == 1 and r.random() < 0.6:
            share = r.randrange(i)
        hist = [op() for _ in range(r.choice([0, 0, 1, 2, 3, 5]))]
        ths.append({'tree': i % ntrees, 'share': share, 'history': hist,
                    'final': op(), 'plan': None})
    case['threads'] = ths
    case['requests'] = None      # resolved by the pre-pass, kept by pin()


def tree_prepass(case):
    """sequential browsing (run in a forked child, so that nothing it
    decodes or caches is in the process that runs the schedules): returns
    the request parameters each thread will send."""
    from . import c20
    from DocumentTemplate import HTML
    tmpl = HTML(c20.template_src(case['opts']))
    jars = []
    out = []
    for th in case['threads']:
        root = c20.build(case['trees'][th['tree']])
        byidx = {}

        def reg(n):
            byidx[n.idx] = n
            for k_ in n.kids:
                reg(k_)
        reg(root)
        jar = dict(jars[th['share']]) if th['share'] is not None else {}

        def request(params):
            resp = c20.Response()
            req = {'root': root, 'URL': 'http://host/folder/page',
                   'RESPONSE': resp,
                   'kidsof': lambda idx: list(byidx[idx].kids)}
            if 'tree-s' in jar:
                req['tree-s'] = jar['tree-s']
            req.update(params)
            html = tmpl(None, req)
            if 'tree-s' in resp.cookies:
                jar['tree-s'] = resp.cookies['tree-s']
            return [(idx, l) for idx, l, n in c20.parse_page(html) if l]

        def params_of(o, links):
            if o['op'] == 'expand_all':
                return {'expand_all': 1}
            if o['op'] == 'collapse_all':
                return {'collapse_all': 1}
            if o['op'] == 'click' and links:
                sel = links
                if o.get('prefer') in ('e', 'c'):
                    sel = [x for x in links if x[1][0] == o['prefer']] or links
                elif o.get('prefer') == 'deep':
                    sel = links[len(links) // 2:]
                idx, link = sel[o['i'] % len(sel)]
                return {'tree-' + link[0]: link[1]}
            return {}
        links = request({})
        for o in th['history']:
            links = request(params_of(o, links))
        p = params_of(th['final'], links)
        if 'tree-s' in jar:
            p['tree-s'] = jar['tree-s']
        jars.append(jar)
        out.append(p)
    return out


# ------------------------------------------------------------------ runner

_CLASSES = {}


def classes():
    if not _CLASSES:
        from DocumentTemplate import HTML

        class RHTML(HTML):
            """permissive guards: everything is allowed, but expressions
            are compiled and run through the restricted code path"""

            def guarded_getattr(self, ob, name, *default):
                return getattr(ob, name, *default)

            def guarded_getitem(self, ob, index):
                return ob[index]
        _CLASSES['plain'] = HTML
        _CLASSES['restricted'] = RHTML
    return _CLASSES


def make_template(case):
    from . import c17
    cls = classes()['restricted' if case['restricted'] else 'plain']
    d = {}
    if case['family'] == 'tree':
        pass
    elif case['family'] == 'gen':
        for n, v in sorted(case['subs'].items()):
            d[n] = cls(v['src'], **dict(v['defaults']))
    else:
        d['dflt'] = 'D'
        if 'shexc' in case['src']:
            d['shexc'] = ValueError(SlowStr())
        if case.get('with_sub'):
            d['sub'] = cls(c17.SUB_SRC, dflt='sd')
    if case.get('via_mapping'):
        t = cls(case['src'], d)       # defaults as the mapping argument
    else:
        t = cls(case['src'], **d)
    if case['precooked']:
        try:
            t.cook()
            for v in d.values():
                if hasattr(v, 'cook'):
                    v.cook()
        except Exception:
            pass
    return t


class SlowStr:
    """turning it into text takes a while (a pre-emption point)"""

    def __str__(self):
        s = S.ACTIVE[0]
        if s is not None:
            s.yield_point('callback:str')
        return 'boom'


class Env18(E.RunEnv):
    """call-backs are slow: each invocation offers a pre-emption point"""

    def invoke(self, name, md=None):
        s = S.ACTIVE[0]
        if s is not None:
            s.yield_point('callback:' + name)
        return E.RunEnv.invoke(self, name, md)

    def materialise(self, r, name, k):
        from . import c08
        if isinstance(r, dict) and 'treeroot' in r:
            return c08.TNode(self, name, r['treeroot'])
        return E.RunEnv.materialise(self, r, name, k)


def norm(v):
    return re.sub(r'0x[0-9a-fA-F]+', '0x', v) if isinstance(v, str) else v


def thread_fn(case, i, t):
    from . import c08
    from . import c17
    th = case['threads'][i]
    if case['family'] == 'tree':
        from . import c20
        params = case['requests'][i]

        class SlowNode(c20.Node):
            """child access is a slow call into the application: it offers
            a pre-emption point"""

            def tpValues(self):
                s = S.ACTIVE[0]
                if s is not None:
                    s.yield_point('callback:tpValues')
                return list(self.kids)

            kids_m = tpValues

        def fn():
            outs = []
            for _ in range(case.get('calls', 1)):
                root = c20.build(case['trees'][th['tree']], SlowNode)
                byidx = {}

                def reg(n):
                    byidx[n.idx] = n
                    for k_ in n.kids:
                        reg(k_)
                reg(root)
                resp = c20.Response()
                req = {'root': root, 'URL': 'http://host/folder/page',
                       'RESPONSE': resp, 'pre1': '@%d' % i,
                       'kidsof': lambda idx: list(byidx[idx].kids)}
                req.update(params)
                if case.get('docs'):
                    from DocumentTemplate import HTML
                    req['hdr'] = HTML('[H@%d]' % i)
                    req['ftr'] = HTML('[F@%d]' % i)
                try:
                    outs.append(['val', M.describe(norm(t(None, req))),
                                 sorted(resp.cookies.items())])
                except Exception as e:
                    outs.append(['raise', type(e).__name__,
                                 norm(str(e))[:300]])
            return outs
    elif case['family'] == 'gen':
        def fn():
            env = Env18(case['script'], th.get('plan') or {})
            env.shift = th['shift']
            env.tag = '@%d' % i
            # computed exception classes differ per thread
            rot_a = [E.EA, E.EX, KeyError]
            rot_b = [E.EAB, ValueError, E.EA]
            env.extra_names = {'X_EA': rot_a[th['shift'] % 3],
                               'X_EAB': rot_b[th['shift'] % 3],
                               'URL': 'http://h/p', 'RESPONSE': c08.Resp()}
            env.extra_names.update(case.get('req', {}))
            kw = env.namespace(case['names'])
            outs = []
            for _ in range(case.get('calls', 1)):
                try:
                    outs.append(['val', M.describe(norm(
                        t(None, {'pre1': i}, **kw)))])
                except Exception as e:
                    outs.append(['raise', type(e).__name__,
                                 norm(str(e))[:300]])
            return outs
    else:
        def fn():
            outs = []
            for _ in range(case.get('calls', 1)):
                client, mapping, kw, hook, watch = c17.build_inputs(
                    th['inputs'], th.get('plan') or {}, None)
                try:
                    outs.append(['val', M.describe(norm(
                        c17.call(t, client, mapping, kw)))])
                except Exception as e:
                    outs.append(['raise', type(e).__name__,
                                 norm(str(e))[:300]])
            return outs
    return fn


def schedule_for(case, j, profiles, used_lines):
    """the j-th schedule of the batch -> (strategy name, policy, track
    writes?)"""
    r = core.stream(case['sched_seed'], 'sched%d' % j)
    k = case['nthreads']
    x = r.random()
    total = sum(len(p) for p in profiles)
    if case['opcode'] == 'store' and r.random() < 0.4:
        # split a line at one of its stores: thread a is parked right in
        # front of a store instruction (it has read what the line reads),
        # another thread runs for a while - into the middle of its own call
        # - then a goes on to the end, then the rest
        a = r.randrange(k)
        prof = profiles[a]
        labels = sorted(set(p for p in prof if p.endswith('+s')))
        if labels:
            fresh = [ln for ln in labels
                     if (a, ln) not in used_lines] or labels
            ln = r.choice(fresh)
            used_lines.add((a, ln))
            occ = [i for i, p in enumerate(prof) if p == ln]
            n = occ[-1] if r.random() < 0.4 else r.choice(occ)
            others = [t for t in range(k) if t != a]
            r.shuffle(others)
            b = others[0]
            m = r.randrange(1, max(2, len(profiles[b]))) \
                if r.random() < 0.7 else FOREVER
            segs = [[a, n], [b, m], [a, FOREVER]] + \
                [[t, FOREVER] for t in others]
            return 'store_split', S.SegmentPolicy(segs), False
    if x < 0.30 and WRITES and any(WRITES):
        # park a thread right after one of its writes (each distinct write
        # line of the solo profile at most once per case), with or without
        # a race to the lock and a hand-over first
        y = r.randrange(k)
        if not WRITES[y]:
            y = max(range(k), key=lambda t_: len(WRITES[t_]))
        lines = WRITES[y]
        race = (not case['precooked']) and r.random() < 0.6
        fresh = [ln for ln in lines if (y, race, ln) not in used_lines] \
            or lines
        ln = r.choice(fresh)
        used_lines.add((y, race, ln))
        xs = [t_ for t_ in range(k) if t_ != y]
        return 'handover', S.HandoverPolicy(r.choice(xs), y, ln, race), False
    if x < 0.40 and not case['precooked']:
        # race to the compile lock, then a random walk or write-biased
        if r.random() < 0.5:
            inner = S.WritePolicy(r, 0.5, r.choice([50, 400, 5000]))
            return 'lock_barrier', S.BarrierPolicy(inner), True
        p = r.choice([0.1, 0.02, 0.005])
        segs = []
        budget = total * 2 + 50
        while budget > 0:
            n = 1
            while r.random() > p and n < 5000:
                n += 1
            segs.append([r.randrange(k), n])
            budget -= n
        return 'lock_barrier', S.BarrierPolicy(S.SegmentPolicy(segs)), False
    if x < 0.58:
        a = r.randrange(k)
        prof = profiles[a]
        lines = sorted(set(prof))
        fresh = [ln for ln in lines if (a, ln) not in used_lines] or lines
        ln = r.choice(fresh) if prof else None
        used_lines.add((a, ln))
        occ = [i for i, p in enumerate(prof) if p == ln]
        n = r.choice(occ) if occ else 0
        others = [t for t in range(k) if t != a]
        r.shuffle(others)
        segs = [[a, n]] + [[t, FOREVER] for t in others] + [[a, FOREVER]]
        return 'one_preemption', S.SegmentPolicy(segs), False
    if x < 0.70:
        a, b = r.sample(range(k), 2)
        n1 = r.randrange(max(1, len(profiles[a])))
        n2 = r.randrange(max(1, len(profiles[b])))
        rest = list(range(k))
        r.shuffle(rest)
        segs = [[a, n1], [b, n2]] + [[t, FOREVER] for t in rest]
        return 'two_preemptions', S.SegmentPolicy(segs), False
    if x < 0.80:
        prios = list(range(k))
        r.shuffle(prios)
        d = r.choice([1, 2, 3])
        cps = [r.randrange(max(1, total)) for _ in range(d)]
        return 'pct', S.PCTPolicy(prios, cps), False
    if x < 0.92:
        p = r.choice([0.5, 0.1, 0.02, 0.005])
        segs = []
        budget = total * 2 + 50
        while budget > 0:
            n = 1
            while r.random() > p and n < 5000:
                n += 1
            segs.append([r.randrange(k), n])
            budget -= n
        return 'random_walk', S.SegmentPolicy(segs), False
    return 'write_biased', S.WritePolicy(r, 0.5, r.choice([50, 400, 5000])), \
        True


def run_schedule(case, policy, cap, track_writes=False):
    t = make_template(case)
    fns = [thread_fn(case, i, t) for i in range(case['nthreads'])]
    if case.get('prerendered'):
        try:
            fns[case['sched_seed'] % len(fns)]()
        except BaseException:      # noqa: B902  (a failing request is one too)
            pass
    sim = S.Sim(fns, policy, cap, opcode=case['opcode'])
    sim.track_writes = track_writes
    sim.run()
    sim.fns = fns
    return sim


def after_race(case, sim, expected):
    """the fully serialised interleaving that follows every schedule: once
    all threads are done, each call is made once more on the same shared
    template, one at a time; it must still give what it gives alone"""
    for i, fn in enumerate(sim.fns):
        try:
            got = fn()
        except BaseException as e:     # noqa: B902  (reported, not raised)
            got = ['raise-base', type(e).__name__, str(e)[:200]]
        if got != expected[i]:
            return [{'rule': 'after_race', 'key': 'after_race:result',
                     'detail': {'thread': i, 'got': got,
                                'alone': expected[i]}}]
    return []


def solo(case):
    """outcome and pre-emption profile of every thread running alone on a
    fresh template"""
    outs, profs = [], []
    WRITES[:] = []
    for i in range(case['nthreads']):
        def alone(i=i):
            t = make_template(case)
            w = set()
            out, points = S.solo_profile(thread_fn(case, i, t),
                                         opcode=case['opcode'], writes=w)
            points = S.Profile(points)
            points.writes = sorted(w)
            if out[0] != 'ok':
                return ('exc', repr(out[1])), points
            return out, points
        # "running alone" means alone in the interpreter as well: each
        # reference comes from a forked child in which nothing else has been
        # rendered, so process-wide state of the package cannot carry one
        # thread's request into another thread's reference
        out, points = core.forked(alone, CASE_TIMEOUT)
        if out[0] != 'ok':
            raise RuntimeError('solo run failed: %s' % (out[1],))
        outs.append(out[1])
        profs.append(list(points))
        WRITES.append(list(getattr(points, 'writes', ())))
    return outs, profs


def judge(case, sim, expected):
    v = []
    if sim.harness_error:
        raise RuntimeError(sim.harness_error)
    if sim.abort in ('deadlock', 'no_progress'):
        v.append({'rule': sim.abort, 'key': sim.abort,
                  'detail': {'blocked_on': [
                      getattr(th.blocked_on, 'name', None) for th in sim.th],
                      'steps': sim.steps}})
        return v
    for i, th in enumerate(sim.th):
        o = th.outcome
        if o is None or o[0] != 'ok':
            got = ['harness', repr(o)]
            if o is not None and o[0] == 'exc':
                got = ['raise-base', type(o[1]).__name__, str(o[1])[:200]]
        else:
            got = o[1]
        if got != expected[i]:
            kind = 'foreign_value'
            mine = '@%d' % i
            text = repr(got)
            if not any(('@%d' % j) in text for j in range(len(sim.th))
                       if j != i):
                kind = 'wrong_result'
            if isinstance(got[0], list) and len(got) == len(expected[i]):
                for g_, e_ in zip(got, expected[i]):
                    if g_[0] != e_[0]:
                        kind = 'outcome_kind:%s->%s' % (e_[0], g_[0])
                        break
            del mine
            v.append({'rule': 'result', 'key': 'result:' + kind,
                      'detail': {'thread': i, 'got': got,
                                 'alone': expected[i]}})
            break
    return v


def run_case(case):
    """every case runs in a forked child of the calling process: it starts
    from the interpreter state right after warm-up, whatever ran before, so
    that a case is a pure function of (case, code) even for code that keeps
    process-wide state"""
    return core.forked(lambda: _run_case(case), CASE_TIMEOUT)


def _run_case(case):
    probes, faults = {}, {}
    violations = []
    nontrivial = set()
    dg = hashlib.sha256()
    extra = {'interleavings': set(), 'preempt_lines': set(),
             'profile_lines': set()}

    def probe(n):
        probes[n] = probes.get(n, 0) + 1

    if case['family'] == 'tree' and case.get('requests') is None:
        case = dict(case, requests=core.forked(lambda: tree_prepass(case),
                                               CASE_TIMEOUT))
    expected, profiles = solo(case)
    if case['opcode']:
        # store mode: let every code object be instrumented for instruction
        # events here, in the main thread, before worker threads alternate
        # on it (CPython 3.12.1 is fragile when that happens under them)
        for i in range(case['nthreads']):
            S.solo_profile(thread_fn(case, i, make_template(case)),
                           opcode=case['opcode'])
    total = sum(len(p) for p in profiles)
    cap = 50 * total + 2000
    chash = core.chash([case['src'], case['threads'], case['precooked'],
                        case['restricted'], case.get('trees')])
    for p in profiles:
        extra['profile_lines'].update(p)
    evaluations = steps = 0
    used_lines = set()

    def one(name, policy, track):
        nonlocal evaluations, steps
        sim = run_schedule(case, policy, cap, track)
        evaluations += 1
        steps += sim.steps
        vs = judge(case, sim, expected)
        if not vs and not sim.abort:
            vs = after_race(case, sim, expected)
            steps += 1
        segs = sim.segments()
        dg.update(repr((name, segs, [th.outcome and th.outcome[0]
                                     for th in sim.th])).encode())
        for x in vs:
            x['detail'].update(strategy=name, segments=segs,
                               ends=[r[2:] for r in sim.record],
                               source=case['src'][:1200])
            if case['family'] == 'tree':
                x['detail']['requests'] = case['requests']
        sw = [s for s in sim.switches if s[1] != 'finished']
        h = hashlib.sha256(repr(sim.switches).encode()).digest()[:6]
        extra['interleavings'].add(int.from_bytes(h, 'big'))
        inside = False
        for (frm, where, to) in sw:
            if where.startswith('lock '):
                faults['sched.blocked_on_lock'] = faults.get(
                    'sched.blocked_on_lock', 0) + 1
                if 'DT_String' in where:
                    probe('compile_race_second_thread_blocked_on_cooklock')
                continue
            faults['sched.preemption'] = faults.get('sched.preemption', 0) + 1
            if where.startswith('callback:'):
                probe('callback_yield_switch')
                inside = True
                continue
            extra['preempt_lines'].add(where)
            inside = True
            if where.startswith('DT_String.py'):
                ln = int(where.split(':')[1].split('+')[0])
                if 100 < ln < 400:
                    probe('preempted_inside_cook')
            else:
                probe('preempted_inside_render')
        if track and getattr(policy, 'nswitch', 0):
            probe('switch_right_after_attribute_write')
        probe('strategy_' + name)
        if name == 'handover' and policy.hit:
            probe('handover_thread_parked_after_the_write')
        if name == 'lock_barrier' and getattr(policy, 'released', False) \
                and len(getattr(policy, 'waiting', ())) == case['nthreads']:
            probe('all_threads_parked_in_front_of_the_compile_lock')
        if inside:
            nontrivial.add(core.chash([chash, sim.switches]))
        if not vs and any(e[0][0] == 'raise' for e in expected) and any(
                e[0][0] == 'val' for e in expected) and inside and (
                case['threads'][0].get('plan') or any(
                    t.get('plan') for t in case['threads'])):
            probe('one_thread_failed_others_fine')
        return vs

    if case.get('segments') is not None:
        violations += one('replay', S.SegmentPolicy(case['segments']), False)
    else:
        if case.get('exhaust_one'):
            r = core.stream(case['sched_seed'], 'exhaust')
            k = case['nthreads']
            for a in range(k):
                prof = profiles[a]
                first = {}
                occs = {}
                for idx, ln in enumerate(prof):
                    first.setdefault(ln, idx)
                    occs.setdefault(ln, []).append(idx)
                for ln in sorted(first):
                    targets = {first[ln]}
                    if len(occs[ln]) > 1:
                        targets.add(r.choice(occs[ln][1:]))
                    for n in sorted(targets):
                        if violations or steps > STEP_BUDGET:
                            break
                        others = [t for t in range(k) if t != a]
                        r.shuffle(others)
                        segs = [[a, n]] + [[t, FOREVER] for t in others] + \
                            [[a, FOREVER]]
                        used_lines.add((a, ln))
                        violations += one('one_preemption',
                                          S.SegmentPolicy(segs), False)
            probe('single_preemption_stratum_exhausted'
                  if steps <= STEP_BUDGET else
                  'single_preemption_stratum_cut_by_step_budget')
        if case.get('exhaust_handover') and not violations:
            # every storing line of every thread's solo profile once, with
            # and (for a template that is not compiled yet) without a race
            # to the lock first
            r = core.stream(case['sched_seed'], 'exhaust_handover')
            k = case['nthreads']
            done = True
            for y in range(k):
                for ln in (WRITES[y] if y < len(WRITES) else ()):
                    for race in ((True, False) if not case['precooked']
                                 else (False,)):
                        if violations or steps > STEP_BUDGET:
                            done = False
                            break
                        x_ = r.choice([t_ for t_ in range(k) if t_ != y])
                        used_lines.add((y, race, ln))
                        violations += one('handover', S.HandoverPolicy(
                            x_, y, ln, race), False)
            probe('handover_stratum_exhausted' if done else
                  'handover_stratum_cut_by_step_budget')
        for j in range(case['nsched']):
            if violations or steps > 2 * STEP_BUDGET:
                break
            name, policy, track = schedule_for(case, j, profiles, used_lines)
            violations += one(name, policy, track)
            if violations:
                break
    if case.get('calls', 1) > 1:
        probe('second_call_of_a_thread')
    if case['nthreads'] == 3:
        probe('three_threads')
    if case['precooked']:
        probe('precooked_template')
    if case['restricted']:
        probe('restricted_eval_variant')
    if case['opcode']:
        probe('store_instruction_granularity')
    if case.get('prerendered'):
        probe('template_rendered_before_the_race')
    if case['bad_source'] and all(e[0][0] == 'raise' for e in expected):
        probe('parse_error_template')
    if 'sort_expr' in case['src']:
        probe('sort_expr_per_thread')
    if (case['family'] == 'gen' and case['subs']) or (
            case.get('with_sub') and '<dtml-var sub>' in case['src']):
        probe('shared_sub_template')
    if '<dtml-tree' in case['src']:
        probe('tree_tag')
    if case['family'] == 'tree':
        probe('tree_cookie_protocol')
        rq = case['requests']
        if any(a.get('tree-s') and a.get('tree-s') == b.get('tree-s')
               for n_, a in enumerate(rq) for b in rq[n_ + 1:]):
            probe('two_threads_carry_the_same_tree_s')
        if any('tree-e' in a or 'tree-c' in a for a in rq):
            probe('tree_click_request')
    return {'violations': violations[:1], 'steps': steps, 'faults': faults,
            'probes': probes, 'nontrivial': sorted(nontrivial),
            'digest': dg.hexdigest()[:12], 'evaluations': evaluations,
            'extra': extra}


def warmup():
    """import every lazily imported tag class in the main thread, so that no
    import (and no import lock) happens under the scheduler"""
    from DocumentTemplate import HTML
    import TreeDisplay  # noqa: F401
    t = HTML('<dtml-in a><dtml-else></dtml-in><dtml-with b></dtml-with>'
             '<dtml-if c><dtml-elif d><dtml-else></dtml-if><dtml-unless e>'
             '</dtml-unless><dtml-raise f></dtml-raise><dtml-try>'
             '<dtml-except></dtml-try><dtml-try><dtml-finally></dtml-try>'
             '<dtml-let g=h></dtml-let><dtml-return i><dtml-call j>'
             '<dtml-comment></dtml-comment><dtml-tree k></dtml-tree>')
    t.cook()
    classes()


def finish_coverage(cov, tot):
    pl = tot.extra.get('profile_lines', set())
    pp = tot.extra.get('preempt_lines', set())
    cov['distinct_interleavings'] = len(tot.extra.get('interleavings', ()))
    cov['distinct_interleavings_measure'] = (
        'hash of the ordered list of (from-thread, file:line or lock, '
        'to-thread) switch records of an execution')
    cov['package_lines_seen_in_solo_profiles'] = len(pl)
    cov['package_lines_used_as_preemption_point'] = len(pp & pl) if pl \
        else len(pp)
    cov['line_preemption_coverage'] = round(
        len(pp & pl) / max(1, len(pl)), 3)
    for k in ('interleavings', 'profile_lines', 'preempt_lines'):
        cov.pop(k, None)


def sample(case, res):
    return {'template': case['src'][:600], 'threads': case['nthreads'],
            'precooked': case['precooked'], 'restricted': case['restricted'],
            'schedules_run': res['evaluations']}


# ---------------------------------------------------------------- shrinking

def pin(case, violation):
    segs = violation.get('detail', {}).get('segments')
    if case.get('segments') is None and segs is not None:
        c = dict(case, segments=segs)
        if case['family'] == 'tree' and case.get('requests') is None:
            c['requests'] = violation['detail'].get('requests')
        return c
    return None


def shrink(case):
    segs = case.get('segments')
    if segs is None:
        return
    # fewer context switches first
    for i in range(len(segs)):
        yield dict(case, segments=segs[:i] + segs[i + 1:])
    for i in range(len(segs) - 1):
        if segs[i][0] == segs[i + 1][0]:
            merged = [segs[i][0], min(FOREVER, segs[i][1] + segs[i + 1][1])]
            yield dict(case, segments=segs[:i] + [merged] + segs[i + 2:])
    if case['nthreads'] > 2 and not (case['family'] == 'tree' and
                                     case.get('requests') is None):
        for drop in range(case['nthreads']):
            ths = case['threads'][:drop] + case['threads'][drop + 1:]
            ns = [[t - (t > drop), n] for t, n in segs if t != drop]
            c = dict(case, nthreads=case['nthreads'] - 1, threads=ths,
                     segments=ns)
            if case['family'] == 'tree':
                c['requests'] = case['requests'][:drop] + \
                    case['requests'][drop + 1:]
            yield c
    for i, (t, n) in enumerate(segs):
        if 1 < n < FOREVER:
            for m in (n // 2, n - 1):
                yield dict(case, segments=segs[:i] + [[t, m]] + segs[i + 1:])
    for i, th in enumerate(case['threads']):
        if th.get('plan'):
            ths = list(case['threads'])
            ths[i] = dict(th, plan=None)
            yield dict(case, threads=ths)
    if case['opcode']:
        yield dict(case, opcode=False)
    if case['restricted']:
        yield dict(case, restricted=False)
