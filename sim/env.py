"""Engine A -- the environment simulator.

Everything a DTML program touches outside the library is a *site*: a named
object in the namespace whose protocol methods (``__render_with_namespace__``,
``__call__``, ``__str__``, ``__bool__``, ``__getitem__``, ``__len__``,
``__getattr__``, ``__lt__``) report to one RunEnv, which logs the invocation
(with a snapshot of the live namespace when the library hands it over),
consults the fault plan and then answers from the environment script.

A program is a JSON AST (see ``render_src``); sites have names fixed at
generation time, so minimisation never renumbers them.
"""

# ------------------------------------------------------------ exceptions


class EA(Exception):
    pass


class EAB(EA):
    pass


class EABC(EAB):
    pass


class EX(Exception):
    pass


class EMI(EAB, EX):
    pass


class EFALSY(EA):
    """a well-behaved exception whose instances are falsy (a collection of
    problems that happens to be empty)"""

    def __len__(self):
        return 0


class ETY(EA, TypeError):
    """application error that is also one of Python's own classes"""


# impostors: same class NAME as a member of the hierarchy, other ancestry
# (handlers are selected by name; a per-name memo must not confuse them)
EAB_X = type('EAB', (EX,), {})
EX_A = type('EX', (EA,), {})

EXC = {c.__name__: c for c in (EA, EAB, EABC, EX, EMI, ETY, EFALSY, KeyError, LookupError,
                               ValueError, IndexError, AttributeError,
                               TypeError, RuntimeError, ZeroDivisionError,
                               KeyboardInterrupt, Exception)}
try:                                    # names dtml-raise resolves itself
    from zExceptions import BadRequest, NotFound
    EXC['NotFound'] = NotFound
    EXC['BadRequest'] = BadRequest
except ImportError:                     # pragma: no cover
    pass
EXC['EAB~'] = EAB_X
EXC['EX~'] = EX_A
# an application's own classes that merely share their NAME with a builtin
# or zExceptions exception (a library's own NotFound / KeyError): handlers
# go by name
EXC['NotFound~'] = type('NotFound', (EA,), {})
EXC['KeyError~'] = type('KeyError', (EX,), {})


class _Undef:
    def __repr__(self):
        return '<undefined>'


UNDEF = _Undef()      # answer of an attribute site that is not defined (yet)


class Event:
    __slots__ = ('site', 'ordinal', 'data', 'level', 'md', 'fired', 'ans',
                 'note')

    def __init__(self, site, ordinal, md):
        self.site, self.ordinal, self.md = site, ordinal, md
        self.fired = self.ans = self.note = None
        if md is not None:
            self.data = list(md._data)   # keeps the entries alive
            self.level = md.level
        else:
            self.data = self.level = None


class RunEnv:
    """One execution's environment: script, fault plan, recorded history."""

    def __init__(self, script, plan=None, defaults=None):
        self.script = script or {}
        self.plan = plan or {}          # {site: {ordinal(str|'*'): fault}}
        self.counts = {}
        self.log = []
        self.fired = []
        self.sites = {}
        self.defaults = defaults or {}
        self.extra_names = {}
        self.shift = 0      # rotates 'rot' answers: differs per execution
        self.tag = ''       # appended to volatile tokens (per-thread mark)
        self.defined = set()  # attribute sites defined so far (side effects)
        self.stable = {}      # objects handed out again on every invocation
        self.shared_map = None  # the REQUEST-like mapping on the namespace

    # -- registry -------------------------------------------------------
    def site(self, name):
        s = self.sites.get(name)
        if s is None:
            s = self.sites[name] = Site(self, name)
        return s

    def namespace(self, names):
        d = {n: self.site(n) for n in names}
        d.update(self.extra_names)
        return d

    # -- the one entry point of every call-back --------------------------
    def invoke(self, name, md=None):
        k = self.counts[name] = self.counts.get(name, 0) + 1
        ev = Event(name, k, md)
        self.log.append(ev)
        f = self.plan.get(name)
        if f:
            f = f.get(str(k)) or f.get('*')
        if f:
            ev.fired = f
            self.fired.append((name, k, f))
            self.raise_fault(f, name, k)
        ev.ans = self.answer(name, k)
        return ev.ans

    def raise_fault(self, f, name, k):
        kind = f['kind']
        if kind == 'raise':
            raise EXC[f['exc']](f.get('msg', 'fault@%s#%d' % (name, k)))
        if kind == 'return':
            from DocumentTemplate.DT_Return import DTReturn
            raise DTReturn(f.get('value', 'RET@%s' % name))
        raise AssertionError('unknown fault kind %r' % (kind,))

    def answer(self, name, k):
        resp = self.script.get(name)
        if resp is None:
            return self.defaults.get(name, '')
        if isinstance(resp, list):       # per-ordinal answers, last repeats
            resp = resp[min(k, len(resp)) - 1]
        return self.materialise(resp, name, k)

    def materialise(self, r, name, k):
        if not isinstance(r, dict):
            return r
        if 'defines' in r:               # side effect: attributes appear
            self.defined.update(r['defines'])
        if 'grow' in r and self.shared_map is not None:
            # side effect a la REQUEST.set(): a mapping that is on the
            # namespace stack gains (or loses) a key while rendering goes on
            m = self.shared_map
            extra = sorted(k_ for k_ in m if str(k_).startswith('set'))
            if r['grow'] > 0:
                m['set%d' % len(extra)] = 1
            elif extra:
                del m[extra[-1]]
        if 'when_defined' in r:
            return r['when_defined'] if name in self.defined else UNDEF
        if 'raise' in r:
            ev = self.log[-1]
            ev.fired = {'kind': 'raise', 'exc': r['raise'], 'scripted': 1}
            self.fired.append((name, k, ev.fired))
            raise EXC[r['raise']](r.get('msg', 'scripted@%s#%d' % (name, k)))
        if r.get('same'):                # the identical object every time
            if name not in self.stable:
                self.stable[name] = self.materialise(
                    {k_: v_ for k_, v_ in r.items() if k_ != 'same'}, name, k)
            return self.stable[name]
        if 'rot' in r:                   # differs per call and per execution
            return self.materialise(
                r['rot'][(k - 1 + self.shift) % len(r['rot'])], name, k)
        if 'tok' in r:                   # volatile token: differs per call
            return '%s#%d%s' % (r['tok'], k, self.tag)
        if 'v' in r:
            return r['v']
        if 'list' in r:
            items = [self.materialise(x, '%s[%d]' % (name, i), k)
                     for i, x in enumerate(r['list'])]
            if r.get('lazy'):
                return LazyList(self, name, items)
            if r.get('tuple'):
                return tuple(items)
            if r.get('iter'):
                return iter(items)
            return items
        if 'obj' in r:
            return Obj(self, name, r['obj'], r.get('sites', ()),
                       r.get('fallback', False))
        if 'map' in r:
            return Map(self, name, r['map'], r.get('fallback', False),
                       r.get('computed', ()), r.get('miss'), r.get('vlen'))
        if 'pair' in r:
            return (r['pair'][0], self.materialise(r['pair'][1], name, k))
        if 'strobj' in r:
            return StrObj(self, r['strobj'])
        if 'boolobj' in r:
            return BoolObj(self, r['boolobj'], r.get('truth', True))
        if 'seqobj' in r:
            return SeqObj(self, r['seqobj'], r.get('truth', True),
                          r.get('len', 0))
        if 'callobj' in r:
            return CallObj(self, r['callobj'])
        if 'iterobj' in r:
            return IterObj(self, r['iterobj'])
        if 'undef' in r:
            return UNDEF
        if 'key' in r:
            return Key(self, r['key'], r['rank'])
        if 'exc' in r:
            return EXC[r['exc']]
        raise AssertionError('bad response %r' % (r,))


class Site:
    """A named namespace value.  Looked up by name the library calls
    __render_with_namespace__(md) -- the existing seam that hands the live
    TemplateDict to caller code; inside expressions it is called plainly."""

    def __init__(self, env, name):
        self._env, self._name = env, name

    def __render_with_namespace__(self, md):
        return self._env.invoke(self._name, md)

    def __call__(self):
        return self._env.invoke(self._name, None)

    def __repr__(self):
        return '<site %s>' % self._name


class Obj:
    """Client / with / item object: plain attributes, attribute *sites*
    (invoked on every getattr), optional fall-back to the site registry (so
    that names stay reachable inside 'with only')."""

    def __init__(self, env, name, attrs, sites=(), fallback=False):
        d = self.__dict__
        d['_env'], d['_name'], d['_sites'], d['_fb'] = env, name, sites, fallback
        for k, v in attrs.items():
            d[k] = env.materialise(v, '%s.%s' % (name, k), 0)

    def __getattr__(self, n):
        if n[:1] == '_':
            raise AttributeError(n)
        if n in self._sites:
            v = self._env.invoke('%s.%s' % (self._name.split('[')[0], n))
            if v is UNDEF:
                raise AttributeError(n)
            return v
        if self._fb and (n in self._env.sites or n in self._env.extra_names):
            return self._env.extra_names.get(n) or self._env.sites[n]
        raise AttributeError(n)

    def __repr__(self):
        return '<obj %s>' % self._name


class Map:
    def __init__(self, env, name, data, fallback=False, computed=(),
                 miss=None, vlen=None):
        self._env, self._name, self._fb = env, name, fallback
        self._miss = miss               # how a missing key is reported
        self._vlen = list(vlen or ())   # sizes it reports, call after call
        self._nlen = 0
        self._computed = computed       # keys whose value is computed on
        self._d = {k: env.materialise(v, '%s.%s' % (name, k), 0)  # access
                   for k, v in data.items()}

    def __getitem__(self, k):
        if k in self._computed:
            v = self._env.invoke('%s.%s' % (self._name, k))
            if v is UNDEF:          # not there (this time)
                raise KeyError(k)
            return v
        if k in self._d:
            return self._d[k]
        if self._fb and (k in self._env.sites or k in self._env.extra_names):
            return self._env.extra_names.get(k) or self._env.sites[k]
        # mappings in the wild report a miss with all sorts of KeyError
        # arguments (shelve: the encoded key; others: a message, nothing)
        if self._miss == 'bytes':
            raise KeyError(k.encode('utf-8') if isinstance(k, str) else k)
        if self._miss == 'bare':
            raise KeyError()
        if self._miss == 'msg':
            raise KeyError('no such key: %r' % (k,))
        raise KeyError(k)

    def get(self, k, default=None):
        try:
            return self[k]
        except KeyError:
            return default

    def keys(self):
        return self._d.keys()

    def __len__(self):
        if self._vlen:
            # a session-like mapping that the body fills or empties: its
            # size (and so its truth) is not the same from one look to the
            # next
            self._nlen += 1
            return self._vlen[(self._nlen - 1) % len(self._vlen)]
        return len(self._d)

    def __repr__(self):
        return '<map %s>' % self._name


class LazyList:
    """Subscriptable sequence whose item access and length are sites."""

    def __init__(self, env, name, items):
        self._env, self._name, self._items = env, name, items

    def __getitem__(self, i):
        self._env.invoke(self._name + '.getitem')
        return self._items[i]

    def __len__(self):
        self._env.invoke(self._name + '.len')
        return len(self._items)


class StrObj:
    def __init__(self, env, name):
        self._env, self._name = env, name

    def __str__(self):
        r = self._env.invoke(self._name + '.str')
        return r if isinstance(r, str) and r else 'str(%s)' % self._name


class BoolObj:
    def __init__(self, env, name, truth):
        self._env, self._name, self._truth = env, name, truth

    def __bool__(self):
        self._env.invoke(self._name + '.bool')
        return bool(self._truth)

    def __str__(self):
        return 'boolobj'


class CallObj:
    """a value that is itself callable (a closure, an instance with
    __call__): a namespace that holds it calls it on every look-up"""

    def __init__(self, env, name):
        self._env, self._name = env, name

    def __call__(self):
        r = self._env.invoke(self._name + '.call')
        return r if isinstance(r, str) and r else 'called(%s)' % self._name

    def __str__(self):
        return 'callobj'


class IterObj:
    """a one-shot iterator as a value (a cursor, a generator): true, like
    any object without __bool__ / __len__"""

    def __init__(self, env, name):
        self._env, self._name = env, name
        self._left = 2

    def __iter__(self):
        return self

    def __next__(self):
        if self._left <= 0:
            raise StopIteration
        self._left -= 1
        return 'it%d' % self._left

    def __str__(self):
        return 'iterobj'


class SeqObj(BoolObj):
    """sequence-like value with its own truth: __bool__ decides (as it does
    in Python), whatever __len__ and __getitem__ would suggest"""

    def __init__(self, env, name, truth, n):
        BoolObj.__init__(self, env, name, truth)
        self._n = n

    def __len__(self):
        return self._n

    def __getitem__(self, i):
        if 0 <= i < self._n:
            return i
        raise IndexError(i)

    def __str__(self):
        return 'seqobj'


class Key:
    """Sort key whose comparison is a site."""

    def __init__(self, env, name, rank):
        self._env, self._name, self.rank = env, name, rank

    def __call__(self):
        return self      # sort_sequence calls non-basic keys

    def __lt__(self, other):
        self._env.invoke(self._name + '.lt')
        return self.rank < other.rank

    def __gt__(self, other):
        self._env.invoke(self._name + '.lt')
        return self.rank > other.rank

    def __eq__(self, other):
        return isinstance(other, Key) and self.rank == other.rank

    def __hash__(self):
        return hash(self.rank)


# ----------------------------------------------------------------- printer

def ref(c):
    """attribute text for a name-or-expression reference"""
    how = c.get('how', 'name')
    if how == 'name':
        return c['site']
    if how == 'expr':
        return 'expr="_[\'%s\']"' % c['site']
    if how == 'call':
        return 'expr="%s()"' % c['site']
    if how == 'getitem0':
        return 'expr="_.getitem(\'%s\', 0)"' % c['site']
    if how == 'lit':
        return 'expr="%s"' % c['lit']
    raise AssertionError(how)


def body_src(b):
    return ''.join(node_src(n) for n in b['n'])


def node_src(n):
    k = n['k']
    if k == 'text':
        return n['t']
    if k in ('var', 'sent', 'mark'):
        c = dict(n)
        if n.get('how', 'name') == 'name':
            return '<dtml-var %s>' % n['site']
        return '<dtml-var %s>' % ref(c)
    if k == 'sub':
        how = n.get('how', 'var')
        if how == 'kw':         # explicit call, extra keyword frame
            return '<dtml-var expr="%s(None, _, kwx=1)">' % n['name']
        if how == 'client':     # explicit call with a client object
            return ('<dtml-var expr="%s(_.namespace(cl=5)[0], _)">'
                    % n['name'])
        if how == 'clients2':   # a path of two client objects
            return ('<dtml-var expr="%s((_.namespace(cl=5)[0], '
                    '_.namespace(cm=6)[0]), _)">' % n['name'])
        if how == 'clientstr':  # a string as the client object
            return '<dtml-var expr="%s(\'text\', _)">' % n['name']
        if how == 'clientsmix':  # a path holding an object and a string
            return ('<dtml-var expr="%s((_.namespace(cl=5)[0], \'text\'), '
                    '_)">' % n['name'])
        if how == 'clients0':   # an empty client path
            return '<dtml-var expr="%s((), _)">' % n['name']
        if how == 'call':
            return '<dtml-call %s>' % n['name']
        if how == 'if':
            return '<dtml-if %s></dtml-if>' % n['name']
        return '<dtml-var %s>' % n['name']
    if k == 'if':
        out = []
        for i, c in enumerate(n['conds']):
            out.append('<dtml-%s %s>' % ('if' if i == 0 else 'elif',
                                         ref(c['c'])))
            out.append(body_src(c['body']))
        if n.get('else') is not None:
            out.append('<dtml-else>' + body_src(n['else']))
        return ''.join(out) + '</dtml-if>'
    if k == 'unless':
        return '<dtml-unless %s>%s</dtml-unless>' % (ref(n['c']),
                                                     body_src(n['body']))
    if k == 'call':
        return '<dtml-call %s>' % ref(n['c'])
    if k == 'in':
        a = [ref(n['src'])]
        o = n.get('opts', {})
        for p in ('start', 'end', 'size', 'orphan', 'overlap', 'sort',
                  'prefix'):
            if p in o:
                a.append('%s=%s' % (p, o[p]))
        for p in ('sort_expr', 'reverse_expr'):
            if p in o:
                a.append('%s="_[\'%s\']"' % (p, o[p]))
        for p in ('mapping', 'reverse', 'no_push_item', 'previous', 'next',
                  'skip_unauthorized'):
            if o.get(p):
                a.append(p)
        s = '<dtml-in %s>%s' % (' '.join(a), body_src(n['body']))
        if n.get('else') is not None:
            s += '<dtml-else>' + body_src(n['else'])
        return s + '</dtml-in>'
    if k == 'with':
        a = [ref(n['src'])]
        if n.get('mapping'):
            a.append('mapping')
        if n.get('only'):
            a.append('only')
        return '<dtml-with %s>%s</dtml-with>' % (' '.join(a),
                                                 body_src(n['body']))
    if k == 'let':
        a = []
        for name, c in n['args']:
            if c.get('how', 'name') == 'name':
                a.append('%s=%s' % (name, c['site']))
            elif c['how'] == 'lit':
                a.append('%s="%s"' % (name, c['lit']))
            else:
                a.append('%s="_[\'%s\']"' % (name, c['site']))
        return '<dtml-let %s>%s</dtml-let>' % (' '.join(a),
                                               body_src(n['body']))
    if k == 'try':
        s = '<dtml-try>' + body_src(n['body'])
        for h in n['handlers']:
            s += '<dtml-except%s>%s' % (
                (' ' + ' '.join(h['names'])) if h['names'] else '',
                body_src(h['body']))
        if n.get('else') is not None:
            s += '<dtml-else>' + body_src(n['else'])
        return s + '</dtml-try>'
    if k == 'tryf':
        return '<dtml-try>%s<dtml-finally>%s</dtml-try>' % (
            body_src(n['body']), body_src(n['finally']))
    if k == 'raise':
        t = n['type']
        if 'name' in t:
            a = t['name']
        elif 'site' in t:
            a = 'expr="_[\'%s\']"' % t['site']
        elif 'expr' in t:
            a = 'expr="_.getitem(\'%s\', 0)"' % t['expr']
        else:
            a = 'type="%s"' % t['type']
        return '<dtml-raise %s>%s</dtml-raise>' % (a, body_src(n['body']))
    if k == 'return':
        return '<dtml-return %s>' % ref(n['val'])
    if k == 'comment':
        return '<dtml-comment>%s</dtml-comment>' % body_src(n['body'])
    if k == 'tree':
        a = [ref(n['src'])]
        for p in ('branches', 'branches_expr', 'id', 'header', 'footer',
                  'leaves', 'expand'):
            if p in n.get('opts', {}):
                a.append('%s="%s"' % (p, n['opts'][p]))
        return '<dtml-tree %s>%s</dtml-tree>' % (' '.join(a),
                                                 body_src(n['body']))
    raise AssertionError('unknown node kind %r' % (k,))


def walk_bodies(b, parent=None, via=None, out=None):
    """yield (body, parent body id, kind of the node that owns it)"""
    if out is None:
        out = []
    out.append((b, parent, via))
    for n in b['n']:
        for sub, kind in child_bodies(n):
            walk_bodies(sub, b['b'], kind, out)
    return out


def child_bodies(n):
    k = n['k']
    if k == 'if':
        for c in n['conds']:
            yield c['body'], 'if'
        if n.get('else') is not None:
            yield n['else'], 'if'
    elif k in ('unless', 'with', 'let', 'comment', 'raise', 'tree'):
        yield n['body'], ('with_only' if k == 'with' and n.get('only')
                          else k)
    elif k == 'in':
        yield n['body'], 'in'
        if n.get('else') is not None:
            yield n['else'], 'in_else'
    elif k == 'try':
        yield n['body'], 'try'
        for h in n['handlers']:
            yield h['body'], 'except'
        if n.get('else') is not None:
            yield n['else'], 'try_else'
    elif k == 'tryf':
        yield n['body'], 'try'
        yield n['finally'], 'finally'


def all_sites(b, acc=None):
    """every site name mentioned in a body (recursively)"""
    if acc is None:
        acc = []
    for n in b['n']:
        for key in ('site',):
            if key in n:
                acc.append(n[key])
        for key in ('c', 'src', 'val'):
            if key in n and isinstance(n[key], dict) and 'site' in n[key]:
                acc.append(n[key]['site'])
        if n['k'] == 'if':
            for c in n['conds']:
                if 'site' in c['c']:
                    acc.append(c['c']['site'])
        if n['k'] == 'let':
            for _, c in n['args']:
                if 'site' in c:
                    acc.append(c['site'])
        if n['k'] == 'in':
            for p, v in n.get('opts', {}).items():
                if isinstance(v, str) and v[:1].isupper() and p in (
                        'start', 'end', 'size', 'orphan', 'overlap',
                        'sort_expr', 'reverse_expr'):
                    acc.append(v)
        if n['k'] == 'raise' and 'expr' in n['type']:
            acc.append(n['type']['expr'])
        if n['k'] == 'raise' and 'site' in n['type']:
            acc.append(n['type']['site'])
        for sub, _ in child_bodies(n):
            all_sites(sub, acc)
    return acc
