"""Structural shrinking of abstract DTML programs (shared by C09 and C14)."""
import copy

from . import env as E


def bodies(b, keep=('sent',)):
    """smaller variants of one body: drop a node, splice a block's child
    body in its place, shrink a node in place"""
    n = b['n']
    for i, x in enumerate(n):
        yield dict(b, n=n[:i] + n[i + 1:])
        guard = x['k'] == 'if' and 'RC' in x['conds'][0]['c'].get(
            'site', '')[:3]       # never unguard a bounded recursion
        if x['k'] not in keep and not guard:
            for sub, _ in E.child_bodies(x):
                yield dict(b, n=n[:i] + sub['n'] + n[i + 1:])
    for i, x in enumerate(n):
        for rep in node_variants(x):
            yield dict(b, n=n[:i] + [rep] + n[i + 1:])


def node_variants(x):
    k = x['k']
    if k == 'if':
        for j, c in enumerate(x['conds']):
            for nb in bodies(c['body']):
                cs = copy.deepcopy(x['conds'])
                cs[j]['body'] = nb
                yield dict(x, conds=cs)
        if len(x['conds']) > 1:
            for j in range(len(x['conds'])):
                yield dict(x, conds=x['conds'][:j] + x['conds'][j + 1:])
        if x.get('else') is not None:
            yield dict(x, **{'else': None})
            for nb in bodies(x['else']):
                yield dict(x, **{'else': nb})
    elif k in ('unless', 'with', 'let', 'raise', 'tree', 'in'):
        for nb in bodies(x['body']):
            yield dict(x, body=nb)
        if k == 'in' and x.get('else') is not None:
            yield dict(x, **{'else': None})
            for nb in bodies(x['else']):
                yield dict(x, **{'else': nb})
        if k == 'let' and len(x['args']) > 1:
            for j in range(len(x['args'])):
                yield dict(x, args=x['args'][:j] + x['args'][j + 1:])
    elif k == 'try':
        for nb in bodies(x['body']):
            yield dict(x, body=nb)
        for j, h in enumerate(x['handlers']):
            if len(x['handlers']) > 1:
                yield dict(x, handlers=x['handlers'][:j] +
                           x['handlers'][j + 1:])
            if len(h['names']) > 1:
                for q in range(len(h['names'])):
                    hs = copy.deepcopy(x['handlers'])
                    del hs[j]['names'][q]
                    yield dict(x, handlers=hs)
            for nb in bodies(h['body']):
                hs = copy.deepcopy(x['handlers'])
                hs[j]['body'] = nb
                yield dict(x, handlers=hs)
        if x.get('else') is not None:
            yield dict(x, **{'else': None})
            for nb in bodies(x['else']):
                yield dict(x, **{'else': nb})
    elif k == 'tryf':
        for nb in bodies(x['body']):
            yield dict(x, body=nb)
        for nb in bodies(x['finally']):
            yield dict(x, **{'finally': nb})


def shrink_prog(case):
    """candidates with a smaller program (fault plans are kept)"""
    for nb in bodies(case['body']):
        yield dict(case, body=nb)
    for name, spec in case.get('subs', {}).items():
        for nb in bodies(spec['body']):
            c = copy.deepcopy(case)
            c['subs'][name]['body'] = nb
            yield c
        if spec.get('defaults'):
            c = copy.deepcopy(case)
            c['subs'][name]['defaults'] = {}
            yield c


def sub_names_used(body, acc=None):
    if acc is None:
        acc = set()
    for n in body['n']:
        if n['k'] == 'sub':
            acc.add(n['name'])
        for sub, _ in E.child_bodies(n):
            sub_names_used(sub, acc)
    return acc
