"""./check <property> [quick|thorough] | replay <file> | selftest ... | all"""
import os
import sys

sys.path.insert(0, os.path.dirname(os.path.dirname(os.path.abspath(__file__))))
from sim import core  # noqa: E402

PROPS = ['C08', 'C09', 'C12', 'C14', 'C17', 'C18', 'C20']


def load(prop):
    import importlib
    return importlib.import_module('sim.' + prop.lower())


def main(argv):
    if not argv:
        print(__doc__)
        return 2
    core.bootstrap()
    cmd = argv[0]
    if cmd == 'replay':
        mods = {}
        import json
        d = json.load(open(argv[1], encoding='utf-8'))
        mods[d['property']] = load(d['property'])
        m = mods[d['property']]
        if hasattr(m, 'warmup'):
            m.warmup()
        return core.replay(argv[1], mods)
    if cmd == 'selftest':
        from sim import selftest
        return selftest.main(argv[1:])
    tier = argv[1] if len(argv) > 1 else os.environ.get('VERIF_TIER', 'quick')
    if tier not in ('quick', 'thorough'):
        tier = 'quick'
    if cmd == 'all':
        rc = 0
        for p in PROPS:
            try:
                rc = max(rc, core.run_check(load(p), tier))
            except ModuleNotFoundError:
                print('no check for', p)
        return rc
    if cmd.upper() in PROPS:
        return core.run_check(load(cmd.upper()), tier)
    print(__doc__)
    return 2


if __name__ == '__main__':
    sys.exit(main(sys.argv[1:]))
