"""Engine B -- a seeded, deterministic scheduler for real threads.

Exactly one worker thread is runnable at any instant (baton passing over
threading.Event objects); which one is the scheduler's decision, taken at
pre-emption points.  A pre-emption point is every 'line' trace event (or
every 'opcode' event, when asked) of a frame whose code lives in the package
under test, plus every acquisition of a lock the package created.  Locks
created by package code are simulated: threading.Lock / RLock are replaced,
BEFORE the package is imported, by a factory that hands a SimLock to callers
whose file is under <repo>/src and a real lock to everybody else; a thread
that cannot take a SimLock is parked in the scheduler, never in the OS.

An executed schedule is recorded in one normal form, a list of segments
``[tid, n]`` -- "run thread tid for n pre-emption points, or until it blocks
or finishes" -- together with the file:line at which each segment ended.
Replaying the segment list reproduces the execution exactly; any edited list
is still a valid schedule (when the list is exhausted the current thread
continues, then the lowest-numbered runnable one).
"""
import _thread
import os
import sys
import threading

_real_Lock = threading.Lock
_real_RLock = threading.RLock
_SRC_PREFIXES = []
ACTIVE = [None]            # the Sim currently running, if any


class SimAbort(BaseException):
    """raised inside worker threads when a run is abandoned (deadlock, step
    cap); passes through 'except Exception' in the package"""


# ------------------------------------------------------------------- locks

class SimLock:
    """stands in for threading.Lock objects created by package code"""

    _reentrant = False

    def __init__(self):
        self._real = _thread.allocate_lock()
        self.owner = None          # tid of the simulated owner
        self.count = 0
        self.name = None

    def _sim(self):
        s = ACTIVE[0]
        if s is not None:
            tid = s.by_ident.get(_thread.get_ident())
            if tid is not None:
                return s, tid
        return None, None

    def acquire(self, blocking=True, timeout=-1):
        s, tid = self._sim()
        if s is None:
            if self._reentrant and self.owner == ('real', _thread.get_ident()):
                self.count += 1
                return True
            ok = self._real.acquire(blocking, timeout)
            if ok and self._reentrant:
                self.owner = ('real', _thread.get_ident())
                self.count = 1
            return ok
        return s.lock_acquire(self, tid, blocking)

    def release(self):
        s, tid = self._sim()
        if s is None:
            if self._reentrant:
                self.count -= 1
                if self.count:
                    return
                self.owner = None
            self._real.release()
            return
        s.lock_release(self, tid)

    def locked(self):
        return self.owner is not None or self._real.locked()

    __enter__ = acquire

    def __exit__(self, *a):
        self.release()


class SimRLock(SimLock):
    _reentrant = True


def _factory(real, sim):
    def make(*a, **k):
        f = sys._getframe(1)
        fn = f.f_code.co_filename
        if any(fn.startswith(p) for p in _SRC_PREFIXES):
            lk = sim()
            lk.name = '%s:%d' % (os.path.basename(fn), f.f_lineno)
            return lk
        return real(*a, **k)
    return make


def install_lock_factory(src_dir):
    """must run before the package is imported"""
    p = os.path.realpath(src_dir) + os.sep
    if p not in _SRC_PREFIXES:
        _SRC_PREFIXES.append(p)
    if src_dir + os.sep not in _SRC_PREFIXES:
        _SRC_PREFIXES.append(src_dir + os.sep)
    if getattr(threading.Lock, '__name__', '') != 'make':
        threading.Lock = _factory(_real_Lock, SimLock)
        threading.RLock = _factory(_real_RLock, SimRLock)


# --------------------------------------------------------------- policies

INF = 10 ** 9


class SegmentPolicy:
    """follow a list of [tid, n] segments: thread tid may pass n pre-emption
    points, the next one hands over to the next segment whose thread is
    runnable; a thread that blocks or finishes ends its segment early"""

    def __init__(self, segments):
        self.segs = [list(s) for s in segments]
        self.idx = -1
        self.used = 0

    def _next(self, s, cur):
        self.idx += 1
        self.used = 0
        while self.idx < len(self.segs):
            t = self.segs[self.idx][0]
            if t < len(s.th) and s.runnable(t):
                return t
            self.idx += 1
        return s.default_pick(cur)

    def start(self, s):
        return self._next(s, None)

    def at_point(self, s, tid):
        if self.idx < len(self.segs):
            seg = self.segs[self.idx]
            if seg[0] == tid and self.used < seg[1]:
                self.used += 1
                return tid
            return self._next(s, tid)
        return tid

    def cannot_continue(self, s, tid):
        return self._next(s, None)


class PCTPolicy:
    """PCT (Burckhardt et al.): random distinct priorities, d-1 priority
    change points at given global steps; always run the highest-priority
    runnable thread"""

    def __init__(self, prios, change_points):
        self.prio = list(prios)
        self.cps = sorted(change_points)
        self.low = 0

    def _best(self, s, exclude=None):
        best = None
        for t in range(len(s.th)):
            if t != exclude and s.runnable(t):
                if best is None or self.prio[t] > self.prio[best]:
                    best = t
        return best

    def start(self, s):
        return self._best(s)

    def at_point(self, s, tid):
        while self.cps and s.steps >= self.cps[0]:
            self.cps.pop(0)
            self.low -= 1
            self.prio[tid] = self.low
        b = self._best(s)
        return tid if b is None else b

    def cannot_continue(self, s, tid):
        return self._best(s, exclude=tid if not s.runnable(tid) else None)


class BarrierPolicy:
    """race to the lock: every thread runs, one after the other, up to its
    first attempt to take a package lock and is parked right in front of it;
    when all are there (or finished, or blocked) the inner policy takes over.
    For a template that is compiled on first use this puts every thread past
    the 'not compiled yet' test before anybody compiles."""

    def __init__(self, inner):
        self.inner = inner
        self.waiting = set()
        self.released = False

    def _other(self, s):
        for t in range(len(s.th)):
            if t not in self.waiting and s.runnable(t):
                return t
        return None

    def start(self, s):
        return 0

    def at_point(self, s, tid):
        if self.released:
            return self.inner.at_point(s, tid)
        if (s.last_label or '').startswith('acquire '):
            self.waiting.add(tid)
            t = self._other(s)
            if t is not None:
                return t
            return self._release(s, tid)
        return tid

    def _release(self, s, tid):
        self.released = True
        nxt = self.inner.start(s)
        if nxt is None or not s.runnable(nxt):
            nxt = s.default_pick(tid)
        return nxt

    def cannot_continue(self, s, tid):
        if not self.released:
            self.waiting.add(tid)
            t = self._other(s)
            if t is not None:
                return t
            nxt = self._release(s, None)
            if nxt is not None and nxt != tid and s.runnable(nxt):
                return nxt
        return self.inner.cannot_continue(s, tid)

    @property
    def nswitch(self):
        return getattr(self.inner, 'nswitch', 0)


class HandoverPolicy:
    """park one thread right after a chosen write: thread y runs until it has
    executed the source line `target` (a line that stores into an attribute
    or a container) for the first time and is parked before its next line;
    then the others run to completion, then y.  With `race` set the run
    starts with a race to the lock (BarrierPolicy), after which thread x runs
    until it has released the lock, and only then y runs to the target: y
    then meets the chosen line in a second pass over what x has already
    published (a re-compilation, say), and x goes on - or starts its next
    call - while y is parked in the middle of it."""

    wants_where = True

    def __init__(self, x, y, target, race):
        self.x, self.y, self.target = x, y, target
        self.phase = 'race' if race else 'y'
        self.barrier = BarrierPolicy(self) if race else None
        self.hit = False
        self.prev_where = None

    def start(self, s):
        if self.phase == 'race':
            return 0
        return self.y

    def _after(self, s, cur):
        # y parked (or done): the others to completion, lowest first, y last
        for t in range(len(s.th)):
            if t != self.y and s.runnable(t):
                return t
        return s.default_pick(cur)

    def at_point(self, s, tid):
        if self.phase == 'race':
            b = self.barrier
            if (s.last_label or '').startswith('acquire '):
                b.waiting.add(tid)
                t = b._other(s)
                if t is not None:
                    return t
                self.phase = 'x'
                return self.x if s.runnable(self.x) else tid
            return tid
        if self.phase == 'x':
            if tid != self.x:
                return self.x if s.runnable(self.x) else tid
            if (s.last_label or '').startswith('release '):
                self.phase = 'y'
                self.prev_where = None
                return self.y if s.runnable(self.y) else tid
            return tid
        if self.phase == 'y':
            if tid != self.y:
                return self.y if s.runnable(self.y) else tid
            if (s.last_where or '').endswith('+s'):
                return tid          # in front of a store: not a line end
            if self.prev_where == self.target:
                self.phase = 'rest'
                self.hit = True
                return self._after(s, tid)
            self.prev_where = s.last_where
            return tid
        # rest: run whoever runs to completion, y last
        if tid == self.y:
            t = self._after(s, tid)
            return t if t is not None else tid
        return tid

    def cannot_continue(self, s, tid):
        if self.phase == 'race':
            b = self.barrier
            b.waiting.add(tid)
            t = b._other(s)
            if t is not None:
                return t
            self.phase = 'x'
            if s.runnable(self.x):
                return self.x
        if self.phase == 'x' and tid == self.x:
            self.phase = 'y'
            self.prev_where = None
        if self.phase == 'y':
            if tid == self.y:
                self.phase = 'rest'
            elif s.runnable(self.y):
                return self.y
        if self.phase == 'x' and s.runnable(self.x):
            return self.x
        t = self._after(s, None)
        return t


class WritePolicy:
    """write-biased: after the running thread has written an attribute of a
    shared package object, switch with probability p and let the other
    thread run long"""

    def __init__(self, rnd, p, burst):
        self.rnd, self.p, self.burst = rnd, p, burst
        self.left = 0
        self.nswitch = 0

    def start(self, s):
        return 0

    def at_point(self, s, tid):
        if self.left > 0:
            self.left -= 1
            return tid
        if s.wrote:
            s.wrote = False
            if self.rnd.random() < self.p:
                others = [t for t in range(len(s.th))
                          if t != tid and s.runnable(t)]
                if others:
                    self.left = self.burst
                    self.nswitch += 1
                    return self.rnd.choice(others)
        return tid

    def cannot_continue(self, s, tid):
        return s.default_pick(None)


# -------------------------------------------------------------- scheduler

class _Th:
    __slots__ = ('go', 'fn', 'thread', 'finished', 'blocked_on', 'outcome',
                 'points')

    def __init__(self, fn):
        self.go = threading.Event()
        self.fn = fn
        self.thread = None
        self.finished = False
        self.blocked_on = None
        self.outcome = None
        self.points = 0


class Sim:
    def __init__(self, fns, policy, step_cap, opcode=False, wall_s=120):
        self.th = [_Th(f) for f in fns]
        self.policy = policy
        self.cap = step_cap
        self.opcode = opcode
        self.wall_s = wall_s
        self.steps = 0
        self.abort = None
        self.by_ident = {}
        self.current = None
        self.done = threading.Event()
        self.record = []           # [tid, n, how_ended, where]
        self._stint = 0
        self.switches = []         # (from, where, to)
        self.lock_blocks = 0
        self.wrote = False
        self.track_writes = False
        self.pending_store = {}
        self.code_ok = {}
        self.harness_error = None
        self.last_label = None
        self.last_where = None
        self.want_where = getattr(policy, 'wants_where', False)

    # -- state ----------------------------------------------------------
    def runnable(self, t):
        th = self.th[t]
        if th.finished:
            return False
        lk = th.blocked_on
        return lk is None or lk.owner is None

    def default_pick(self, cur):
        if cur is not None and self.runnable(cur):
            return cur
        for t in range(len(self.th)):
            if self.runnable(t):
                return t
        return None

    # -- tracing --------------------------------------------------------
    def _traced(self, code):
        ok = self.code_ok.get(code)
        if ok is None:
            fn = code.co_filename
            ok = self.code_ok[code] = (
                any(fn.startswith(p) for p in _SRC_PREFIXES) or
                fn.endswith(os.sep + 'RestrictedPython' + os.sep + 'Eval.py'))
        return ok

    def _make_tracer(self, tid):
        opcode = self.opcode
        point = self.point

        if opcode == 'store':
            # line events plus one more pre-emption point right in front of
            # every instruction that stores into (or deletes from) an
            # attribute or a container: splits the read from the write of a
            # read-modify-write written on one source line
            def local(frame, event, arg):
                if event == 'line':
                    point(tid, frame)
                elif event == 'opcode':
                    if frame.f_lasti in store_offsets(frame.f_code):
                        point(tid, frame, None, '+s')
                return local

            def glob(frame, event, arg):
                if event == 'call' and self._traced(frame.f_code):
                    if store_offsets(frame.f_code):
                        frame.f_trace_opcodes = True
                    return local
                return None
            return glob

        def local(frame, event, arg):
            if event == 'line':
                if not opcode:
                    point(tid, frame)
            elif event == 'opcode':
                point(tid, frame)
            return local

        def glob(frame, event, arg):
            if event == 'call' and self._traced(frame.f_code):
                if opcode:
                    frame.f_trace_opcodes = True
                return local
            return None
        return glob

    # -- pre-emption points ----------------------------------------------
    def point(self, tid, frame, label=None, suffix=''):
        if self.abort:
            raise SimAbort(self.abort)
        self.last_label = label if frame is None else None
        if self.want_where:
            self.last_where = None if frame is None else '%s:%d%s' % (
                os.path.basename(frame.f_code.co_filename), frame.f_lineno,
                suffix)
        self.steps += 1
        if self.steps > self.cap:
            self.abort = 'no_progress'
            raise SimAbort(self.abort)
        if self.track_writes and frame is not None:
            self.wrote = self.pending_store.get(tid, False)
            self.pending_store[tid] = store_line(frame.f_code, frame.f_lineno)
        nxt = self.policy.at_point(self, tid)
        if nxt is None or nxt == tid:
            self._stint += 1
            self.th[tid].points += 1
            return
        where = label if frame is None else '%s:%d%s' % (
            os.path.basename(frame.f_code.co_filename), frame.f_lineno,
            suffix)
        self._switch(tid, nxt, 'switch', where)
        if self.abort:
            raise SimAbort(self.abort)

    def yield_point(self, label='callback'):
        """a pre-emption point offered by harness code running inside a
        worker (a slow call-back)"""
        tid = self.by_ident.get(_thread.get_ident())
        if tid is not None:
            self.point(tid, None, label)

    def _switch(self, cur, nxt, how, where):
        self.record.append([cur, self._stint, how, where])
        self.switches.append((cur, where, nxt))
        self._stint = 0
        self.current = nxt
        me = self.th[cur]
        self.th[nxt].go.set()
        me.go.wait()
        me.go.clear()

    # -- locks ----------------------------------------------------------
    def lock_acquire(self, lk, tid, blocking):
        if self.abort:
            raise SimAbort(self.abort)
        if lk._reentrant and lk.owner == tid:
            lk.count += 1
            return True
        # about to take a lock: a pre-emption point like any other (the
        # thread can be parked right in front of the lock)
        self.point(tid, None, 'acquire %s' % lk.name)
        while lk.owner is not None:
            if not blocking:
                return False
            th = self.th[tid]
            th.blocked_on = lk
            self.lock_blocks += 1
            nxt = self.policy.cannot_continue(self, tid)
            if nxt is None or nxt == tid:
                self.abort = 'deadlock'
                th.blocked_on = None
                raise SimAbort(self.abort)
            self._switch(tid, nxt, 'blocked', 'lock %s' % lk.name)
            th.blocked_on = None
            if self.abort:
                raise SimAbort(self.abort)
        lk.owner = tid
        lk.count = 1
        return True

    def lock_release(self, lk, tid):
        if lk._reentrant and lk.count > 1:
            lk.count -= 1
            return
        lk.owner = None
        lk.count = 0
        # just released: a pre-emption point (what the lock protected is
        # published, the thread has not gone on yet)
        if not self.abort:
            self.point(tid, None, 'release %s' % lk.name)

    # -- thread life cycle -------------------------------------------------
    def _target(self, tid):
        th = self.th[tid]
        th.go.wait()
        th.go.clear()
        self.by_ident[_thread.get_ident()] = tid
        try:
            if self.abort:
                raise SimAbort(self.abort)
            sys.settrace(self._make_tracer(tid))
            try:
                th.outcome = ('ok', th.fn())
            finally:
                sys.settrace(None)
        except SimAbort as e:
            th.outcome = ('abort', str(e))
        except BaseException as e:
            th.outcome = ('exc', e)
        th.finished = True
        self.by_ident.pop(_thread.get_ident(), None)
        self.record.append([tid, self._stint, 'finished', ''])
        self._stint = 0
        # locks still held by a finished thread stay held: the others will
        # deadlock on them, which is what would happen for real
        nxt = None
        if not self.abort:
            nxt = self.policy.cannot_continue(self, tid)
        if nxt is None or self.abort:
            for t, o in enumerate(self.th):
                if not o.finished:
                    if not self.abort:
                        self.abort = 'deadlock'
                    nxt = t
                    break
            else:
                self.done.set()
                return
        self.switches.append((tid, 'finished', nxt))
        self.current = nxt
        self.th[nxt].go.set()

    def run(self):
        prev = ACTIVE[0]
        ACTIVE[0] = self
        try:
            for tid, th in enumerate(self.th):
                th.thread = threading.Thread(target=self._target, args=(tid,),
                                             name='sim-worker-%d' % tid,
                                             daemon=True)
                th.thread.start()
            first = self.policy.start(self)
            if first is None:
                first = 0
            self.current = first
            self.th[first].go.set()
            if not self.done.wait(self.wall_s):
                self.harness_error = 'wall clock limit: run did not finish'
                self.abort = 'harness'
                for th in self.th:
                    th.go.set()
                return
            for th in self.th:
                th.thread.join(5)
        finally:
            ACTIVE[0] = prev

    def segments(self):
        return [[r[0], r[1]] for r in self.record]


_STORE_LINES = {}
_STORE_OFFS = {}
_STORES = ('STORE_ATTR', 'STORE_SUBSCR', 'DELETE_ATTR', 'DELETE_SUBSCR')


def store_offsets(code):
    """byte offsets of the instructions of this code object that store into
    an attribute or a container (none for __init__ bodies)"""
    offs = _STORE_OFFS.get(code)
    if offs is None:
        import dis
        offs = frozenset() if code.co_name == '__init__' else frozenset(
            ins.offset for ins in dis.get_instructions(code)
            if ins.opname in _STORES)
        _STORE_OFFS[code] = offs
    return offs



def store_line(code, line):
    """does this source line of this code object write an attribute (of an
    object that may be shared)?  __init__ bodies do not count"""
    lines = _STORE_LINES.get(code)
    if lines is None:
        import dis
        lines = set()
        if code.co_name != '__init__':
            cur = None
            for ins in dis.get_instructions(code):
                ln = getattr(ins, 'line_number', None)
                if ln is None and not isinstance(ins.starts_line, bool):
                    ln = ins.starts_line
                if ln:
                    cur = ln
                if ins.opname in ('STORE_ATTR', 'STORE_SUBSCR',
                                  'DELETE_ATTR', 'DELETE_SUBSCR'):
                    lines.add(cur)
        _STORE_LINES[code] = lines
    return line in lines


# ------------------------------------------------------------ solo profile

class Profile(list):
    """pre-emption points of a solo run; .writes: the storing lines"""
    writes = ()


def solo_profile(fn, opcode=False, writes=None):
    """run fn alone in this thread under the same tracer -> (outcome, list
    of 'file:line' pre-emption points in order)"""
    points = []
    code_ok = {}

    def traced(code):
        ok = code_ok.get(code)
        if ok is None:
            f = code.co_filename
            ok = code_ok[code] = (
                any(f.startswith(p) for p in _SRC_PREFIXES) or
                f.endswith(os.sep + 'RestrictedPython' + os.sep + 'Eval.py'))
        return ok

    def local(frame, event, arg):
        if opcode == 'store':
            if event == 'opcode':
                if frame.f_lasti in store_offsets(frame.f_code):
                    points.append('%s:%d+s' % (os.path.basename(
                        frame.f_code.co_filename), frame.f_lineno))
                return local
            if event != 'line':
                return local
        elif event != ('opcode' if opcode else 'line'):
            return local
        w = '%s:%d' % (os.path.basename(
            frame.f_code.co_filename), frame.f_lineno)
        points.append(w)
        if writes is not None and w not in writes and store_line(
                frame.f_code, frame.f_lineno):
            writes.add(w)
        return local

    def glob(frame, event, arg):
        if event == 'call' and traced(frame.f_code):
            if opcode == 'store':
                if store_offsets(frame.f_code):
                    frame.f_trace_opcodes = True
            elif opcode:
                frame.f_trace_opcodes = True
            return local
        return None
    old = sys.gettrace()
    sys.settrace(glob)
    try:
        try:
            out = ('ok', fn())
        except BaseException as e:
            out = ('exc', e)
    finally:
        sys.settrace(old)
    return out, points
