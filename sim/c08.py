"""C08 -- namespace stack and recursion level restored on every exit path.

Engine A.  Generated programs over every block kind run against the scripted
environment; per program the fault-free run is followed by EVERY single fault
(call-back site x first/last invocation x kind), then by seeded pairs.
Oracle: snapshots of the live TemplateDict taken by sentinel call-backs (and
of the caller-owned TemplateDict around the whole call); no model of DTML.
"""
import copy
import hashlib
import re
import sys

from . import core
from . import env as E

PROP = 'C08'
LEVEL = 'fault_enumeration'
STEP_UNIT = 'call-back invocations (namespace values called by the renderer)'
CHUNK = 8      # consecutive runs per forked child (core.worker)
CASE_TIMEOUT = 300
TIERS = {'quick': (12000, 170), 'thorough': (500000, 2400)}
PROBES = ['fault_inside_pushed_block', 'handler_ran_after_fault',
          'finally_ran_with_pending_exception', 'return_fired',
          'base_exception_fired', 'pair_second_fault_fired',
          'with_only_new_md', 'subtemplate_pushed_defaults',
          'tree_expand_all_transient', 'recursion_guard_fired',
          'in_batch_param_site', 'sort_key_cmp_site', 'attr_site',
          'falsy_mapping_pushed', 'tree_header_footer_document',
          'recursive_sub_template_reentered', 'same_object_pushed_twice',
          'client_path_of_two', 'guard_refused_item', 'blank_handler',
          'guard_refuses_attribute_names',
          'tree_leaves_expand_document',
          'guard_refused_item_skipped',
          'fault_between_in_push_and_try', 'let_arg_fault', 'persistent_fault']
RULE = ('programs: seeded ASTs over text/var/if/elif/else/unless/call/in '
        '(lists, tuples, iterators, lazy lists, mappings, batches, sort, '
        'sort_expr, reverse_expr)/with (mapping, only)/let/try-except-else/'
        'try-finally/raise/return/sub-templates with defaults/dtml-tree '
        '(branches, branches_expr, expand_all, header / footer / leaves / '
        'expand documents, skip_unauthorized), depth <= 4; one program in '
        'five runs with security guards whose item guard refuses every '
        'index j modulo m (dtml-in and dtml-tree with and without '
        'skip_unauthorized); a sentinel '
        'call-back between every two nodes of every body; plus a '
        'self-recursive family that trips the level>200 guard.  Per program: '
        'fault-free run, then every (site x first/last invocation x kind in '
        '{raise EA, raise KeyError, raise KeyboardInterrupt, dtml-return}) '
        'singly, persistent faults on a sample, and seeded pairs (second '
        'fault at a site that ran after the first fired).  An evaluation is '
        'one program execution.  Non-trivial: an execution in which a fault '
        'fired inside a block that had pushed (namespace longer than at the '
        'first sentinel) and a sentinel ran afterwards; distinct = distinct '
        '(program hash, fault plan).')
ASSUMPTIONS = [
    'observation through __render_with_namespace__, the seam by which the '
    'renderer hands its live TemplateDict to namespace values',
    'sibling rule: two consecutive sentinel events of one body with '
    'increasing position and no ancestor-body event between belong to one '
    'execution and must see the identical namespace (same objects, order, '
    'level, TemplateDict)',
    'RecursionError at arbitrary depth and asynchronous exceptions between '
    'two lines are not injected',
    'a call-back raising DTReturn stands for a dtml-return tag at that place '
    '(real dtml-return tags are generated as well)',
]

SINGLE_KINDS = [{'kind': 'raise', 'exc': 'EA'},
                {'kind': 'raise', 'exc': 'KeyError'},
                {'kind': 'raise', 'exc': 'KeyboardInterrupt'},
                {'kind': 'return'}]


# --------------------------------------------------------------- generator

class Gen:
    def __init__(self, r, enabled, maxdepth, width):
        self.r, self.enabled = r, enabled
        self.maxdepth, self.width = maxdepth, width
        self.nb = self.ns = 0
        self.script = {}
        self.subs = {}
        self.nodes = 0
        self.req = {}
        self.guard = False      # C08 only: templates run with a refusing guard
        self.tree_docs = []     # sub-templates the tree tag calls itself

    def site(self, prefix):
        self.ns += 1
        return '%s%d' % (prefix, self.ns)

    def body(self, depth, minn=1):
        bid = 'b%d' % self.nb
        self.nb += 1
        nodes = []
        n = self.r.randint(minn, max(minn, self.width - (depth > 1)))
        pos = 0
        for _ in range(n):
            nodes.append({'k': 'sent', 'site': 'S_%s_%d' % (bid, pos)})
            pos += 1
            nodes.append(self.node(depth))
        nodes.append({'k': 'sent', 'site': 'S_%s_%d' % (bid, pos)})
        return {'b': bid, 'n': nodes}

    def cond(self, truthy=None):
        r = self.r
        s = self.site('C')
        t = r.random() < 0.6 if truthy is None else truthy
        x = r.random()
        if x < 0.2:
            self.script[s] = {'boolobj': s, 'truth': t}
        else:
            self.script[s] = {'v': r.choice([1, 'yes', [0]]) if t
                              else r.choice([0, '', []])}
        return {'site': s, 'how': r.choice(['name', 'name', 'expr', 'call'])}

    def node(self, depth):
        r = self.r
        self.nodes += 1
        leafs = ['text', 'var', 'var', 'call', 'sub', 'return', 'raise']
        blocks = ['if', 'unless', 'in', 'in', 'with', 'let', 'try', 'try',
                  'tryf', 'tree', 'comment']
        kinds = [k for k in leafs if k in self.enabled]
        if depth < self.maxdepth and self.nodes < 40:
            kinds += [k for k in blocks if k in self.enabled] * 2
        k = r.choice(kinds or ['text'])
        if k == 'return' and r.random() < 0.6:
            k = 'var'
        if k == 'raise' and r.random() < 0.4:
            k = 'var'
        return getattr(self, 'n_' + k)(depth)

    def n_text(self, depth):
        return {'k': 'text', 't': self.r.choice(['a', 'bc ', 'x.y', '12:'])}

    def n_var(self, depth):
        r = self.r
        s = self.site('F')
        if r.random() < 0.25:
            self.script[s] = {'strobj': s}
        else:
            self.script[s] = {'tok': s}
        return {'k': 'var', 'site': s,
                'how': r.choice(['name', 'name', 'expr', 'call'])}

    def n_call(self, depth):
        s = self.site('F')
        if self.r.random() < 0.6:
            # REQUEST.set(...) and the like: a mapping that sits on the
            # namespace gains or loses a key
            self.script[s] = {'tok': s, 'grow': self.r.choice([1, 1, -1])}
        return {'k': 'call', 'c': {'site': s, 'how': self.r.choice(
            ['name', 'expr', 'call'])}}

    def n_return(self, depth):
        s = self.site('R')
        self.script[s] = {'tok': s}
        return {'k': 'return', 'val': {'site': s, 'how': self.r.choice(
            ['name', 'expr'])}}

    def n_raise(self, depth):
        r = self.r
        t = r.choice([{'name': 'KeyError'}, {'name': 'ValueError'},
                      {'expr': 'X_EA'}, {'expr': 'X_EAB'}])
        return {'k': 'raise', 'type': t,
                'body': self.body(depth + 1) if r.random() < 0.5 else
                {'b': self._bid(), 'n': [self.n_text(depth)]}}

    def _bid(self):
        self.nb += 1
        return 'b%d' % (self.nb - 1)

    def n_sub(self, depth):
        r = self.r
        how = r.choice(['var', 'var', 'var', 'kw', 'client', 'call', 'if',
                        'clients2', 'clients0', 'clientstr', 'clientsmix'])
        if self.subs and (len(self.subs) >= 2 or r.random() < 0.4):
            return {'k': 'sub', 'name': r.choice(sorted(self.subs)),
                    'how': how}
        name = 'T%d' % (len(self.subs) + 1)
        self.subs[name] = None          # reserve (no recursion)
        saved = self.enabled
        self.enabled = [k for k in saved if k != 'sub']
        b = self.body(min(depth + 1, self.maxdepth - 1))
        self.enabled = saved
        self.subs[name] = {'body': b, 'defaults':
                           r.choice([{}, {'dflt': 'd'}, {'dflt': 'd',
                                                         'd2': 2}])}
        if r.random() < 0.25:
            # bounded self-recursion from a random body of the sub-template
            # (preferably a loop body): the guard turns false after two calls
            bodies = [x[0] for x in E.walk_bodies(b)]
            loops = [x[0] for x in E.walk_bodies(b) if x[2] == 'in']
            tb = r.choice(loops or bodies)
            rc = self.site('RC')
            self.script[rc] = [{'v': 1}, {'v': 1}, {'v': 0}]
            last = max(parse_sent(n['site'])[1] for n in tb['n']
                       if n['k'] == 'sent') if any(
                n['k'] == 'sent' for n in tb['n']) else -1
            if last >= 0:
                ib = self._bid()
                inner = {'b': ib, 'n': [
                    {'k': 'sent', 'site': 'S_%s_0' % ib},
                    {'k': 'sub', 'name': name, 'how': 'var'},
                    {'k': 'sent', 'site': 'S_%s_1' % ib}]}
                # (an expression, not a name: a named condition would be
                # answered from the enclosing activation's if-cache)
                tb['n'].append({'k': 'if', 'conds': [{'c': {
                    'site': rc, 'how': 'call'}, 'body': inner}],
                    'else': None})
                tb['n'].append({'k': 'sent', 'site': 'S_%s_%d'
                                % (tb['b'], last + 1)})
                self.subs[name]['recursive'] = True
        return {'k': 'sub', 'name': name, 'how': how}

    def n_if(self, depth):
        r = self.r
        conds = [{'c': self.cond(), 'body': self.body(depth + 1)}
                 for _ in range(r.choice([1, 1, 2, 3]))]
        return {'k': 'if', 'conds': conds,
                'else': self.body(depth + 1) if r.random() < 0.5 else None}

    def n_unless(self, depth):
        return {'k': 'unless', 'c': self.cond(), 'body': self.body(depth + 1)}

    def n_comment(self, depth):
        return {'k': 'comment', 'body': {'b': self._bid(),
                                         'n': [self.n_text(depth)]}}

    def items(self, q, kind, n):
        out = []
        for i in range(n):
            if kind == 'str':
                out.append('s%d' % i)
            elif kind == 'map':
                # now and then a falsy (empty) but perfectly valid mapping;
                # rarely None (a NULL row): every look-up in the body fails,
                # one more exit path
                x = self.r.random()
                out.append(None if x < 0.06 else {'map': {}} if x < 0.24 else
                           {'map': {'a': 'a%d' % i, 'n': i % 2}})
            elif kind == 'pair':
                out.append({'pair': ['k%d' % i, {'obj': {'a': 'a%d' % i},
                                                 'sites': ['fa']}]})
            elif kind == 'mixed' and i % 2:
                out.append('s%d' % i)
            else:
                attrs = {'a': 'a%d' % i, 'n': i % 2,
                         'k': {'key': '%s.k' % q, 'rank': (i * 7) % 5}}
                out.append({'obj': attrs, 'sites': ['fa']})
        return out

    def n_in(self, depth):
        r = self.r
        q = self.site('Q')
        kind = r.choice(['obj', 'obj', 'str', 'map', 'pair', 'mixed'])
        n = r.choice([0, 1, 2, 3, 4])
        resp = {'list': self.items(q, kind, n)}
        x = r.random()
        if x < 0.15:
            resp['lazy'] = True
        elif x < 0.3:
            resp['tuple'] = True
        elif x < 0.45:
            resp['iter'] = True
        self.script[q] = resp
        opts = {}
        if kind == 'map':
            opts['mapping'] = 1
        if r.random() < 0.35:
            for p in r.sample(['start', 'size', 'end', 'orphan', 'overlap'],
                              r.randint(1, 3)):
                if r.random() < 0.5:
                    z = self.site('Z')
                    self.script[z] = {'v': r.choice([1, 2, '2', 3])}
                    opts[p] = z
                else:
                    opts[p] = r.choice([1, 2, 3])
            if not {'start', 'size', 'end'} & set(opts):
                opts['size'] = 2
            if r.random() < 0.15:
                opts[r.choice(['previous', 'next'])] = 1
        if kind in ('obj', 'map') and r.random() < 0.4 and not resp.get(
                'iter'):
            y = r.random()
            if y < 0.35:
                opts['sort'] = r.choice(['a', 'n', 'n,a', 'a/nocase'])
            elif y < 0.6 and kind == 'obj':
                opts['sort'] = 'k'
            else:
                x_ = self.site('X')
                self.script[x_] = {'v': r.choice(['a', 'n', 'n,a/cmp/desc'])}
                opts['sort_expr'] = x_
        if r.random() < 0.2:
            x_ = self.site('X')
            self.script[x_] = {'v': r.choice([0, 1])}
            opts['reverse_expr'] = x_
        elif r.random() < 0.1:
            opts['reverse'] = 1
        if r.random() < 0.1:
            opts['no_push_item'] = 1
        if r.random() < 0.1:
            opts['prefix'] = 'px'
        if self.guard and r.random() < 0.6:
            opts['skip_unauthorized'] = 1
        body = self.body(depth + 1)
        if kind == 'map' and r.random() < 0.3:
            # the item pushed by the loop is pushed again by a dtml-with
            body['n'].insert(-1, {'k': 'with', 'src': {
                'how': 'lit', 'lit': "_['sequence-item']"}, 'mapping': True,
                'only': False, 'body': self.body(depth + 2)})
        if kind in ('obj', 'pair') and r.random() < 0.6:
            body['n'].insert(1, {'k': 'var', 'site': 'fa', 'attr_of': q})
        if kind != 'str' and kind != 'pair' and r.random() < 0.5:
            body['n'].insert(1, {'k': 'var', 'site': 'a'})
        return {'k': 'in', 'src': {'site': q, 'how': r.choice(
            ['name', 'name', 'expr'])}, 'opts': opts, 'body': body,
            'else': self.body(depth + 1) if r.random() < 0.4 else None}

    def n_with(self, depth):
        r = self.r
        w = self.site('W')
        mapping = r.random() < 0.4
        only = r.random() < 0.3
        if mapping and r.random() < 0.06:
            self.script[w] = {'v': None}      # None where a mapping belongs
        elif mapping:
            self.script[w] = {'map': {} if r.random() < 0.25 else {'wv': 'w'},
                              'fallback': True}
            if r.random() < 0.1:
                self.script[w]['vlen'] = r.choice([[0, 1], [1, 0], [0, 0, 2]])
        else:
            self.script[w] = {'obj': {'wv': 'w'}, 'fallback': True}
        node = {'k': 'with', 'src': {'site': w, 'how': r.choice(
            ['name', 'expr'])}, 'mapping': mapping, 'only': only,
            'body': self.body(depth + 1)}
        if mapping and r.random() < 0.3:
            # the identical mapping object pushed twice in a row
            self.script[w]['same'] = True
            inner = dict(node, body=self.body(depth + 2), only=False)
            b = node['body']
            pos = max(parse_sent(x['site'])[1] for x in b['n']
                      if x['k'] == 'sent')
            b['n'].insert(1, inner)
            b['n'].insert(2, {'k': 'sent', 'site': 'S_%s_%d'
                              % (b['b'], pos + 1)})
            # keep positions increasing along the body
            renumber(b)
        return node

    def n_let(self, depth):
        r = self.r
        args = []
        for i in range(r.randint(1, 3)):
            s = self.site('L')
            self.script[s] = {'tok': s}
            args.append(['lv%d' % i, {'site': s, 'how': r.choice(
                ['name', 'expr'])}])
        return {'k': 'let', 'args': args, 'body': self.body(depth + 1)}

    def n_try(self, depth):
        r = self.r
        hs = []
        pool = ['EA', 'EAB', 'EX', 'KeyError', 'LookupError', 'Exception',
                'SystemError', 'ValueError']
        def hbody():
            # now and then a handler that renders nothing at all (the
            # ignore-the-error idiom), or only blanks
            if r.random() < 0.15:
                return {'b': self._bid(), 'n': r.choice(
                    [[], [{'k': 'text', 't': ' '}]])}
            return self.body(depth + 1)
        for _ in range(r.choice([1, 1, 2, 3])):
            hs.append({'names': r.sample(pool, r.choice([1, 1, 2])),
                       'body': hbody()})
        if r.random() < 0.4:
            hs.append({'names': [], 'body': hbody()})
        return {'k': 'try', 'body': self.body(depth + 1), 'handlers': hs,
                'else': self.body(depth + 1) if r.random() < 0.4 else None}

    def n_tryf(self, depth):
        return {'k': 'tryf', 'body': self.body(depth + 1),
                'finally': self.body(depth + 1)}

    def tree_nodes(self, name, depth, counter):
        r = self.r
        counter[0] += 1
        me = {'id': 'n%d' % counter[0], 'kids': []}
        if depth < 3:
            for _ in range(r.choice([0, 1, 2, 2]) if depth else
                           r.choice([1, 2, 3])):
                if counter[0] >= 7:
                    break
                me['kids'].append(self.tree_nodes(name, depth + 1, counter))
        return me

    def n_tree(self, depth):
        r = self.r
        t = self.site('TR')
        opts = {}
        if r.random() < 0.5:
            opts['branches_expr'] = 'kidsx'
        elif r.random() < 0.3:
            opts['branches'] = 'kids_m'
        # header / footer documents: sub-templates the tag calls itself,
        # with keyword arguments, around the children of an expanded node
        for opt in ('header', 'footer', 'leaves', 'expand'):
            if 'sub' in self.enabled and r.random() < (
                    0.35 if opt in ('header', 'footer') else
                    0.25 if opt == 'leaves' else 0.12) and \
                    len(self.subs) < 4:
                name = 'T%d' % (len(self.subs) + 1)
                self.subs[name] = None
                saved = self.enabled
                # (a tree inside a leaves / expand document runs as a
                # sub-document of the enclosing tree)
                self.enabled = [k for k in saved if k != 'sub' and (
                    k != 'tree' or (opt in ('leaves', 'expand') and
                                    r.random() < 0.5))]
                b = self.body(self.maxdepth - 1)
                self.enabled = saved
                self.subs[name] = {'body': b, 'defaults': r.choice(
                    [{}, {'dflt': 'd'}])}
                opts[opt] = name
                self.tree_docs.append(name)
        self.script[t] = {'treeroot': self.tree_nodes(t, 0, [0])}
        if self.guard and r.random() < 0.6:
            opts['skip_unauthorized'] = 1
        to_leaf = 'leaves' in opts and r.random() < 0.7
        if not to_leaf and r.random() < 0.6:
            self.req['expand_all'] = 1
        elif to_leaf or r.random() < 0.6:
            # the request expands one node (a leaf, often): tree-e carries
            # the path from the root, encoded by the package itself
            node, path = self.script[t]['treeroot'], []
            while True:
                path.append(node['id'])
                if not node['kids'] or (not to_leaf and r.random() < 0.3):
                    break
                node = r.choice(node['kids'])
            self.req['tree_e_path'] = path
        return {'k': 'tree', 'src': {'site': t, 'how': 'name'}, 'opts': opts,
                'body': self.body(self.maxdepth)}


def renumber(b):
    """give the sentinels of a body increasing positions again"""
    pos = 0
    for n in b['n']:
        if n['k'] == 'sent':
            n['site'] = 'S_%s_%d' % (b['b'], pos)
            pos += 1


class TNode:
    """tree node whose child access is a site"""

    def __init__(self, env, name, spec):
        self._env, self._name = env, name
        self.id = spec['id']
        self._kids = [TNode(env, name, k) for k in spec['kids']]

    def tpId(self):
        return self.id

    def tpValues(self):
        self._env.invoke(self._name + '.tpValues')
        return list(self._kids)

    kids_m = tpValues

    def __getattr__(self, n):
        if n == 'kidsx':
            self._env.invoke(self._name + '.kidsx')
            return list(self._kids)
        raise AttributeError(n)


class Resp:
    def setCookie(self, *a, **k):
        pass


ALL_KINDS = ['text', 'var', 'call', 'sub', 'return', 'raise', 'if', 'unless',
             'in', 'with', 'let', 'try', 'tryf', 'tree', 'comment']


def gen_case(seed, tier):
    r = core.stream(seed, 'c08')
    if r.random() < 0.02:
        return {'kind': 'reclimit', 'defaults': r.choice([{'d': 1}, {},
                                                          {'d': 1, 'e': 2}]),
                'inner_try': r.random() < 0.5,
                'wrap': r.choice([None, 'let', 'with', 'in', 'inname', 'inname']),
                # (an item that is pushed, one that is not, both: the
                # height of the namespace stack per level varies)
                'rseq': r.choice([[1], ['s'], ['s', 1], [1, 's']]),
                'catch': r.choice(['SystemError', '', 'Exception']),
                'plans': None}
    # swarm: a random subset of kinds, always something that pushes
    enabled = [k for k in ALL_KINDS if r.random() < 0.6]
    for must in ('var', r.choice(['in', 'with', 'let', 'try', 'sub', 'if'])):
        if must not in enabled:
            enabled.append(must)
    if 'tree' in enabled and r.random() < 0.5:
        enabled.remove('tree')
    g = Gen(r, enabled, r.choice([1, 2, 3, 3, 4]), r.choice([1, 2, 3]))
    # now and then the templates run with security guards, and the item
    # guard refuses every element whose index is j modulo m: the loop and
    # tree code that skips (skip_unauthorized) or reports refused elements
    # sits between pushes and pops as well
    guard = None
    if ('in' in enabled or 'tree' in enabled) and r.random() < 0.2:
        m = r.choice([1, 2, 2, 3])
        guard = [m, r.randrange(m)]
        g.guard = True
    top = g.body(0, minn=1)
    subs = {k: v for k, v in g.subs.items() if v}
    if guard and r.random() < 0.5:
        # the attribute guard refuses a name or two as well: a look-up that
        # passes an object on the namespace stack (a loop item, a with
        # object, a tree node) on its way down then fails with Unauthorized,
        # wherever the package happens to make it
        pool = sorted(subs) + ['a', 'fa', 'wv', 'dflt', 'n']
        names = set(r.sample(pool, r.choice([1, 1, 2])))
        if g.tree_docs and r.random() < 0.6:
            names.add(r.choice(sorted(g.tree_docs)))
        guard.append(sorted(names))
    return {'kind': 'prog', 'body': top, 'subs': subs, 'script': g.script,
            'req': g.req, 'mode': r.choice(['sub', 'sub', 'top']),
            'level0': r.randint(0, 5), 'pair_seed': r.randint(0, 10 ** 9),
            'plans': None, 'guard': guard}


# ------------------------------------------------------------------ runner

class TreeEnv(E.RunEnv):
    def materialise(self, r, name, k):
        if isinstance(r, dict) and 'treeroot' in r:
            return TNode(self, name, r['treeroot'])
        return E.RunEnv.materialise(self, r, name, k)


GUARD_HITS = [0]
_GCLASSES = {}


def guarded_class(guard):
    """HTML with security guards: attribute access is allowed, item access
    refuses every integer index that is j modulo m"""
    key = repr(guard)
    if key not in _GCLASSES:
        from DocumentTemplate import HTML
        from zExceptions import Unauthorized
        m, j = guard[:2]
        refused = frozenset(guard[2]) if len(guard) > 2 else frozenset()

        def getattr_(ob, name, *default):
            if name in refused:
                GUARD_HITS[0] += 1
                raise Unauthorized('attribute %s refused' % name)
            return getattr(ob, name, *default)

        def getitem(ob, index):
            if isinstance(index, int) and index % m == j:
                GUARD_HITS[0] += 1
                raise Unauthorized('item %d refused' % index)
            return ob[index]

        class GHTML(HTML):
            def guarded_getattr(self, ob, name, *default):
                return getattr_(ob, name, *default)

            def guarded_getitem(self, ob, index):
                return getitem(ob, index)
        GHTML.plain_getitem = staticmethod(getitem)
        GHTML.plain_getattr = staticmethod(getattr_)
        _GCLASSES[key] = GHTML
    return _GCLASSES[key]


def prepare(case):
    """compile once per case (the compiled template is shared by all fault
    variants, as a long-lived template object would be)"""
    from DocumentTemplate import HTML
    import TreeDisplay  # noqa: F401  registers dtml-tree
    if case.get('guard'):
        HTML = guarded_class(case['guard'])
    if case['kind'] == 'reclimit':
        # (the recursive call sits inside a block that pushes as well, so a
        # deep but legal recursion also means a tall namespace stack)
        call = {None: '<dtml-var REC>',
                'let': '<dtml-let rl="1"><dtml-var REC></dtml-let>',
                'with': '<dtml-with "_.namespace(rw=1)"><dtml-var REC>'
                        '</dtml-with>',
                'in': '<dtml-in "(1,)"><dtml-var REC></dtml-in>',
                'inname': '<dtml-in RSEQ><dtml-var REC></dtml-in>',
                }[case.get('wrap') if not case['inner_try'] else None]
        # (with a handler at every level the traceback module, which the
        # handler calls, runs into the interpreter's own recursion limit on
        # the long chain of exceptions: not this package's matter, section
        # 3.2, so the wrapped form is used without inner handlers only)
        inner = ('<dtml-var S_r_0><dtml-try>%s<dtml-except %s>'
                 '<dtml-var H_r></dtml-try><dtml-var S_r_1>'
                 % (call, case['catch'])) if case['inner_try'] else call
        rec = HTML(inner, **dict(case['defaults']))
        top = HTML('<dtml-var S_b0_0><dtml-try><dtml-var REC><dtml-except>'
                   '<dtml-var S_h_0></dtml-try><dtml-var S_b0_1>')
        return {'top': top, 'subs': {'REC': rec}, 'names':
                ['S_r_0', 'S_r_1', 'H_r', 'S_b0_0', 'S_b0_1', 'S_h_0'],
                'parents': {'b0': None, 'h': 'b0', 'r': None},
                'src': top.read() + ' || REC=' + inner}
    src = E.body_src(case['body'])
    top = HTML(src)
    subs = {}
    names = list(E.all_sites(case['body']))
    parents = {}
    for b, parent, via in E.walk_bodies(case['body']):
        parents[b['b']] = (parent, via)
    for name, spec in sorted(case['subs'].items()):
        subs[name] = HTML(E.body_src(spec['body']), **dict(spec['defaults']))
        names += E.all_sites(spec['body'])
        for b, parent, via in E.walk_bodies(spec['body']):
            parents[b['b']] = (parent, via if parent else 'sub')
    return {'top': top, 'subs': subs, 'names': sorted(set(names)),
            'parents': parents, 'src': src}


def execute(case, prep, plan):
    from DocumentTemplate._DocumentTemplate import TemplateDict
    env = TreeEnv(case.get('script', {}), plan)
    env.extra_names = dict(prep['subs'])
    env.extra_names.update({'X_EA': E.EA, 'X_EAB': E.EAB,
                            'URL': 'http://h/p', 'RESPONSE': Resp()})
    if case['kind'] == 'reclimit':
        env.extra_names['RSEQ'] = tuple(case.get('rseq') or (1,))
    env.extra_names.update(case.get('req', {}))
    path = env.extra_names.pop('tree_e_path', None)
    if path:
        from TreeDisplay import TreeTag
        env.extra_names['tree-e'] = TreeTag.encode_seq(path)
    kw = env.namespace(prep['names'])
    outcome = None
    md0 = None
    before = None
    mode = case.get('mode', 'sub')
    try:
        if mode == 'sub':
            md0 = TemplateDict()
            env.shared_map = {'pre1': 1}
            md0._push(env.shared_map)
            md0._push({'pre2': 2})
            md0.guarded_getattr = None
            md0.guarded_getitem = None
            if case.get('guard'):
                # what a guarded top-level call would have put there
                md0.guarded_getattr = guarded_class(
                    case['guard']).plain_getattr
                md0.guarded_getitem = guarded_class(
                    case['guard']).plain_getitem
            md0.level = case.get('level0', 0)
            before = (list(md0._data), md0.level)
            res = prep['top'](None, md0, **kw)
        else:
            env.shared_map = {'pre1': 1}
            res = prep['top'](None, env.shared_map, **kw)
        outcome = ('ok', res if isinstance(res, str) else repr(res))
    except BaseException as e:
        outcome = ('exc', type(e).__name__)
    return env, outcome, md0, before


def same_snapshot(a, b):
    return (a.md is b.md and a.level == b.level and
            len(a.data) == len(b.data) and
            all(x is y for x, y in zip(a.data, b.data)))


def describe(ev):
    return {'site': ev.site, 'ordinal': ev.ordinal, 'level': ev.level,
            'entries': [type(x).__name__ + (':' + ','.join(sorted(map(
                str, x.keys()))[:4]) if isinstance(x, dict) else '')
                for x in (ev.data or [])]}


def parse_sent(name):
    if name.startswith('S_'):
        _, bid, pos = name.split('_')
        return bid, int(pos)
    return None


def check(case, prep, env, outcome, md0, before, plan):
    """the oracle: rules 1-3 over the recorded history"""
    v = []
    parents = prep['parents']
    rec = case['kind'] == 'reclimit'

    def ancestors(bid):
        out = []
        if rec:
            return out
        p = parents.get(bid)
        while p and p[0]:
            out.append(p[0])
            p = parents.get(p[0])
        return out

    def between_kind(bid, pos):
        if rec:
            return 'sub'
        for b, _, _ in E.walk_bodies(case['body']) + [
                x for s_ in case['subs'].values()
                for x in E.walk_bodies(s_['body'])]:
            if b['b'] != bid:
                continue
            kinds = []
            for n in b['n']:
                if n['k'] == 'sent':
                    p_ = parse_sent(n['site'])[1]
                    if p_ == pos:
                        ks = [k for k in kinds if k != 'var'] or kinds
                        return '+'.join(sorted(set(ks))) or 'none'
                    if p_ == pos - 1:
                        kinds = []
                else:
                    kinds.append(n['k'])
        return 'multi'

    # rule 1: whole call
    if md0 is not None:
        if not (len(md0._data) == len(before[0]) and
                all(x is y for x, y in zip(md0._data, before[0]))):
            v.append({'rule': 'whole_call', 'key': 'whole_call:entries',
                      'detail': {'before': len(before[0]),
                                 'after': len(md0._data),
                                 'outcome': outcome}})
        elif md0.level != before[1]:
            v.append({'rule': 'whole_call', 'key': 'whole_call:level',
                      'detail': {'before': before[1], 'after': md0.level,
                                 'outcome': outcome}})
    recbids = set()
    if not rec:
        for s_ in case['subs'].values():
            if s_.get('recursive'):
                recbids.update(b['b'] for b, _, _ in E.walk_bodies(
                    s_['body']))

    def keyof(bid, ev):
        # inside a self-recursive sub-template one body has several
        # executions open at a time: they are told apart by the level
        # (and the namespace object: 'with only' starts a new one at level 0)
        return (bid, id(ev.md), ev.level) if bid in recbids else bid
    last = {}       # body key -> (pos, event, index)
    last_idx = {}   # body key -> index of its latest event
    for i, ev in enumerate(env.log):
        ps = parse_sent(ev.site)
        if ps is None or ev.md is None:
            continue
        bid, pos = ps
        key = (bid, ev.level) if rec and bid == 'r' else keyof(bid, ev)
        prev = last.get(key)
        if prev is not None and pos > prev[0] and not any(
                last_idx.get(keyof(a, ev), -1) > prev[2]
                for a in ancestors(bid)):
            if not same_snapshot(prev[1], ev):
                what = 'level' if (prev[1].md is ev.md and len(
                    prev[1].data) == len(ev.data) and all(
                    x is y for x, y in zip(prev[1].data, ev.data))) \
                    else 'entries'
                nk = between_kind(bid, pos) if pos == prev[0] + 1 else 'multi'
                v.append({'rule': 'sibling', 'key': 'sibling:%s:%s'
                          % (what, nk),
                          'detail': {'before': describe(prev[1]),
                                     'after': describe(ev)}})
                break
        elif pos == 0 and not rec:
            # rule 3: first sentinel extends the enclosing body's latest one
            p = parents.get(bid)
            if p and p[0] is not None and p[1] not in ('with_only', 'sub'):
                pe = last.get(keyof(p[0], ev))
                if pe is not None and pe[1].md is ev.md:
                    a, b = pe[1], ev
                    if not (len(b.data) >= len(a.data) and all(
                            x is y for x, y in zip(a.data, b.data)) and
                            a.level == b.level):
                        v.append({'rule': 'prefix', 'key': 'prefix:%s' % p[1],
                                  'detail': {'outer': describe(a),
                                             'inner': describe(b)}})
                        break
        last[key] = (pos, ev, i)
        last_idx[key] = i
    for x in v:
        x['detail']['plan'] = plan
        x['detail']['source'] = prep['src'][:1500]
        x['detail']['outcome'] = outcome
    return v


def run_case(case):
    old = sys.getrecursionlimit()
    if case['kind'] == 'reclimit':
        sys.setrecursionlimit(30000)
    try:
        return _run_case(case)
    finally:
        sys.setrecursionlimit(old)


def _run_case(case):
    prep = prepare(case)
    probes, faults = {}, {}
    violations = []
    nontrivial = set()
    evaluations = steps = 0
    dg = hashlib.sha256()
    phash = core.chash([prep['src'], sorted(case.get('subs', {}))])

    def probe(n):
        probes[n] = probes.get(n, 0) + 1

    def one(plan):
        nonlocal evaluations, steps
        GUARD_HITS[0] = 0
        env, outcome, md0, before = execute(case, prep, plan)
        if case.get('guard') and len(case['guard']) > 2:
            probe('guard_refuses_attribute_names')
        if GUARD_HITS[0]:
            faults['guard.deny'] = faults.get('guard.deny', 0) + GUARD_HITS[0]
            probe('guard_refused_item')
            if 'skip_unauthorized' in prep['src']:
                probe('guard_refused_item_skipped')
        evaluations += 1
        steps += len(env.log)
        dg.update(repr((sorted(plan.items()), outcome,
                        [(e.site, e.ordinal) for e in env.log])).encode())
        vs = check(case, prep, env, outcome, md0, before, plan)
        fired_idx = [i for i, e in enumerate(env.log) if e.fired]
        for (name, k, f) in env.fired:
            kind = f['kind'] if f['kind'] != 'raise' else (
                'raise_base' if f['exc'] == 'KeyboardInterrupt' else 'raise')
            site_kind = ('cb.' + name.rsplit('.', 1)[1]) if '.' in name \
                else 'cb'
            fk = '%s.%s' % (site_kind, kind)
            faults[fk] = faults.get(fk, 0) + 1
            if kind == 'return':
                probe('return_fired')
            if kind == 'raise_base':
                probe('base_exception_fired')
            if name.endswith('.lt'):
                probe('sort_key_cmp_site')
            if name.endswith('.fa'):
                probe('attr_site')
            if name.startswith('Z'):
                probe('in_batch_param_site')
            if name.startswith(('Z', 'X')):
                probe('fault_between_in_push_and_try')
            if name.startswith('L'):
                probe('let_arg_fault')
            if '*' in plan.get(name, {}):
                probe('persistent_fault')
        if fired_idx:
            first = env.log[fired_idx[0]]
            s0 = next((e for e in env.log if e.md is not None), None)
            later = [e for e in env.log[fired_idx[0] + 1:]
                     if parse_sent(e.site)]
            depth = None
            for e in reversed(env.log[:fired_idx[0] + 1]):
                if e.md is not None:
                    depth = len(e.data)
                    break
            if s0 is not None and depth is not None and later and \
                    depth > len(s0.data):
                probe('fault_inside_pushed_block')
                nontrivial.add(core.chash([phash, plan]))
            if any(e.site.startswith('S_') and prep['parents'].get(
                    parse_sent(e.site)[0], (None, None))[1] == 'except'
                    for e in later):
                probe('handler_ran_after_fault')
            if any(prep['parents'].get(parse_sent(e.site)[0],
                                       (None, None))[1] == 'finally'
                   for e in later) and outcome[0] == 'exc':
                probe('finally_ran_with_pending_exception')
            if len(env.fired) > 1:
                probe('pair_second_fault_fired')
        if any(e.site.startswith('RC') and e.ordinal >= 2 for e in env.log):
            probe('recursive_sub_template_reentered')
        if any(e.md is not None and any(
                e.data[i] is e.data[i + 1] for i in range(len(e.data) - 1))
                for e in env.log):
            probe('same_object_pushed_twice')
        if '_.namespace(cm=6)' in prep['src'] + ''.join(
                t_.read() for t_ in prep['subs'].values()):
            probe('client_path_of_two')
        if ' header="' in prep['src'] or ' footer="' in prep['src']:
            probe('tree_header_footer_document')
        if re.search(r'<dtml-except[^>]*> ?(<dtml-except|<dtml-else>|</dtml-try>)',
                     prep['src']):
            probe('blank_handler')
        if ' leaves="' in prep['src'] or ' expand="' in prep['src']:
            probe('tree_leaves_expand_document')
        if any(e.md is not None and any(
                isinstance(x, E.Map) and not len(x) for x in e.data)
                for e in env.log):
            probe('falsy_mapping_pushed')
        if any(e.md is not None and e.md is not env.log[0].md
               for e in env.log if env.log[0].md is not None):
            probe('with_only_new_md')
        return env, outcome, vs

    plans = case.get('plans')
    if case['kind'] == 'reclimit':
        env, outcome, vs = one({})
        violations += vs
        if any(e.site in ('S_h_0', 'H_r') for e in env.log):
            probe('recursion_guard_fired')
            nontrivial.add(core.chash([phash, 'rec']))
        faults['limit.recursion'] = 1
    elif plans is not None:
        for plan in plans:
            env, outcome, vs = one(plan)
            violations += vs
            if vs:
                break
    else:
        env0, outcome0, vs = one({})
        violations += vs
        if any(e.level is not None and e.level > env0.log[0].level
               and len(e.data) > len(env0.log[0].data) + 1
               for e in env0.log if env0.log and env0.log[0].md is not None):
            probe('subtemplate_pushed_defaults')
        sites = {}
        for e in env0.log:
            if not e.site.startswith('S_'):
                sites[e.site] = e.ordinal
        r = core.stream(case['pair_seed'], 'pairs')
        single = []
        for name in sorted(sites):
            ords = ['1'] if sites[name] == 1 else ['1', str(sites[name])]
            for o in ords:
                for f in SINGLE_KINDS:
                    single.append({name: {o: f}})
            if r.random() < 0.25:
                single.append({name: {'*': SINGLE_KINDS[r.randrange(2)]}})
        # sentinels can fail too (a value inserted between two blocks)
        sents = sorted({e.site for e in env0.log if e.site.startswith('S_')})
        for name in r.sample(sents, min(3, len(sents))):
            single.append({name: {'1': SINGLE_KINDS[r.randrange(4)]}})
        pair_src = []
        for plan in single:
            if violations:
                break
            env, outcome, vs = one(plan)
            violations += vs
            if env.fired:
                idx = next(i for i, e in enumerate(env.log) if e.fired)
                after = sorted({e.site for e in env.log[idx + 1:]
                                if not e.fired})
                if after:
                    pair_src.append((plan, after, {
                        e.site: e.ordinal for e in env.log[idx + 1:]}))
            if 'tree' in str(case['body']) and case['req'].get('expand_all') \
                    and env.fired and any(n.endswith(('.kidsx', '.tpValues'))
                                          for n, _, _ in env.fired):
                probe('tree_expand_all_transient')
        # seeded pairs: second fault at a site that ran after the first
        npairs = min(len(pair_src), 12)
        for plan, after, ords in r.sample(pair_src, npairs):
            if violations:
                break
            name = r.choice(after)
            if name in plan:
                continue
            p2 = copy.deepcopy(plan)
            p2[name] = {str(r.choice([1, ords[name]])):
                        SINGLE_KINDS[r.randrange(4)]}
            env, outcome, vs = one(p2)
            violations += vs
    return {'violations': violations[:1], 'steps': steps, 'faults': faults,
            'probes': probes, 'nontrivial': sorted(nontrivial),
            'digest': dg.hexdigest()[:12], 'evaluations': evaluations}


def sample(case, res):
    if case['kind'] == 'reclimit':
        return case
    return {'template': E.body_src(case['body']),
            'sub_templates': {k: [E.body_src(v['body']), v['defaults']]
                              for k, v in case['subs'].items()},
            'mode': case['mode'], 'executions': res['evaluations'],
            'example_fault_plan': {'F1': {'1': SINGLE_KINDS[0]}}}


# ---------------------------------------------------------------- shrinking

def pin(case, violation):
    """first minimisation step: keep only the fault plan that failed"""
    plan = violation.get('detail', {}).get('plan')
    if case.get('kind') == 'prog' and case.get('plans') is None \
            and plan is not None:
        return dict(case, plans=[plan])
    return None


def shrink(case):
    if case['kind'] == 'reclimit':
        return
    # 1. pin the failing plan
    # (run_case reports the plan in the violation detail; the caller passes
    # the violation only through the rule, so try all-plans -> single plans)
    if case.get('plans') is None:
        prep = prepare(case)
        env0, _, _, _ = execute(case, prep, {})
        sites = {}
        for e in env0.log:
            sites[e.site] = e.ordinal
        yield dict(case, plans=[{}])
        for name in sorted(sites):
            for o in {'1', str(sites[name]), '*'}:
                for f in SINGLE_KINDS:
                    yield dict(case, plans=[{name: {o: f}}])
        return
    if case.get('guard'):
        yield dict(case, guard=None)
    # 2. structural: drop nodes / replace a block by its body
    def bodies(b):
        n = b['n']
        for i, x in enumerate(n):
            yield dict(b, n=n[:i] + n[i + 1:])
            if x['k'] != 'sent' and not (
                    x['k'] == 'if' and x['conds'][0]['c'].get(
                        'site', '')[:2] == 'RC'):
                for sub, _ in E.child_bodies(x):
                    yield dict(b, n=n[:i] + sub['n'] + n[i + 1:])
        for i, x in enumerate(n):
            for rep in node_variants(x):
                yield dict(b, n=n[:i] + [rep] + n[i + 1:])

    def node_variants(x):
        k = x['k']
        if k == 'if':
            for j, c in enumerate(x['conds']):
                for nb in bodies(c['body']):
                    cs = copy.deepcopy(x['conds'])
                    cs[j]['body'] = nb
                    yield dict(x, conds=cs)
            if len(x['conds']) > 1:
                for j in range(len(x['conds'])):
                    yield dict(x, conds=x['conds'][:j] + x['conds'][j + 1:])
            if x.get('else') is not None:
                yield dict(x, **{'else': None})
                for nb in bodies(x['else']):
                    yield dict(x, **{'else': nb})
        elif k in ('unless', 'with', 'let', 'raise', 'tree', 'in'):
            for nb in bodies(x['body']):
                yield dict(x, body=nb)
            if k == 'in':
                if x.get('else') is not None:
                    yield dict(x, **{'else': None})
                for p in list(x.get('opts', {})):
                    o = dict(x['opts'])
                    del o[p]
                    if ({'orphan', 'overlap', 'previous', 'next'} & set(o)
                            and not {'start', 'size', 'end'} & set(o)):
                        continue
                    yield dict(x, opts=o)
            if k == 'let' and len(x['args']) > 1:
                for j in range(len(x['args'])):
                    yield dict(x, args=x['args'][:j] + x['args'][j + 1:])
            if k == 'with' and x.get('only'):
                yield dict(x, only=False)
        elif k == 'try':
            for nb in bodies(x['body']):
                yield dict(x, body=nb)
            for j, h in enumerate(x['handlers']):
                if len(x['handlers']) > 1:
                    yield dict(x, handlers=x['handlers'][:j] +
                               x['handlers'][j + 1:])
                for nb in bodies(h['body']):
                    hs = copy.deepcopy(x['handlers'])
                    hs[j]['body'] = nb
                    yield dict(x, handlers=hs)
            if x.get('else') is not None:
                yield dict(x, **{'else': None})
        elif k == 'tryf':
            for nb in bodies(x['body']):
                yield dict(x, body=nb)
            for nb in bodies(x['finally']):
                yield dict(x, **{'finally': nb})

    for nb in bodies(case['body']):
        yield dict(case, body=nb)
    for name, spec in case['subs'].items():
        for nb in bodies(spec['body']):
            c = copy.deepcopy(case)
            c['subs'][name]['body'] = nb
            yield c
    if case.get('mode') != 'sub':
        yield dict(case, mode='sub')
    if case.get('level0'):
        yield dict(case, level0=0)
