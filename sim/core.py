"""Common core of the deterministic simulation checks.

One integer decides a run: VERIF_SEED (base) -> per-run seed -> named PRNG
streams.  A run is first materialised as a JSON-serialisable *case* and only
then executed; the replay file is the case.  Nothing here reads a clock for
anything but wall-time budgeting (how many cases get run), and logging never
draws from a PRNG.
"""
import hashlib
import json
import os
import random
import sys
import time
import traceback

VERIF = os.path.dirname(os.path.dirname(os.path.abspath(__file__)))
REPO = os.environ.get('VERIF_REPO', '/repo')
REPLAYS = os.path.join(VERIF, 'replays')
EVIDENCE = os.environ.get('VERIF_EVIDENCE_DIR') or os.path.join(VERIF, 'evidence')
KNOWN_FILE = os.path.join(VERIF, 'KNOWN_FINDINGS.txt')
WORKERS = int(os.environ.get('VERIF_WORKERS', '16'))
SET_CAP = 250000     # exact distinct-counting stops here (reported as >=)

COMPONENTS = {
    'real': [
        'DocumentTemplate.* (parser, all tags, TemplateDict, InstanceDict, '
        'SequenceFromIter, sequence_variables) imported from the working '
        'tree under test',
        'TreeDisplay.TreeTag', 'RestrictedPython compile/eval',
        'AccessControl / zExceptions as imported', 'CPython threads, pickle, '
        'copy, zlib, json'],
    'stub': [
        'thread scheduler and package-created locks (engine B)',
        'namespace values and every object they return (engine A)',
        'sequence producers (engine A)',
        'file system os.path.exists/open seen by DT_String (engine D)',
        'process restart = pickle round trip (engine D)',
        'browser, cookie jar, network, RESPONSE object (engine C)'],
}


# --------------------------------------------------------------- bootstrap

def bootstrap():
    """Pin hash randomisation, import the package from the tree under test."""
    if os.environ.get('PYTHONHASHSEED') is None:
        env = dict(os.environ)
        env['PYTHONHASHSEED'] = '0'
        env['PYTHONDONTWRITEBYTECODE'] = '1'
        os.execve(sys.executable, [sys.executable, '-B'] + sys.argv, env)
    sys.dont_write_bytecode = True
    src = os.path.join(REPO, 'src')
    if src not in sys.path[:1]:
        sys.path.insert(0, src)
    # locks created by package code are simulated (engine B); outside a
    # simulated run they behave like the real thing
    from . import sched
    sched.install_lock_factory(src)
    import DocumentTemplate
    import TreeDisplay
    for m in (DocumentTemplate, TreeDisplay):
        f = os.path.realpath(m.__file__)
        if not f.startswith(os.path.realpath(src) + os.sep):
            raise SystemExit('HARNESS-ERROR: %s imported from %s, not %s'
                             % (m.__name__, f, src))


def repo_head():
    try:
        import subprocess
        out = subprocess.run(['git', '-C', REPO, 'rev-parse', '--short',
                              'HEAD'], capture_output=True, text=True,
                             timeout=20)
        dirty = subprocess.run(['git', '-C', REPO, 'status', '--porcelain',
                                '--untracked-files=no'],
                               capture_output=True, text=True, timeout=20)
        return out.stdout.strip() + ('+dirty' if dirty.stdout.strip() else '')
    except Exception:
        return 'unknown'


# ------------------------------------------------------------------- seeds

def base_seed():
    try:
        return int(os.environ.get('VERIF_SEED', '1'))
    except ValueError:
        return 1


def run_seed(base, prop, i):
    h = hashlib.sha256(('%d:%s:%d' % (base, prop, i)).encode()).digest()
    return int.from_bytes(h[:6], 'big')


def stream(seed, label):
    """Independent PRNG stream for one concern of one run."""
    return random.Random('%d:%s' % (seed, label))


def chash(obj):
    return hashlib.sha256(json.dumps(obj, sort_keys=True, default=repr)
                          .encode()).hexdigest()[:16]


# ---------------------------------------------------------- known findings

def load_known():
    known = []
    if os.path.exists(KNOWN_FILE):
        for line in open(KNOWN_FILE, encoding='utf-8'):
            line = line.strip()
            if not line.startswith('known:'):
                continue
            head, _, text = line[len('known:'):].partition('::')
            d = dict(kv.split('=', 1) for kv in head.split() if '=' in kv)
            if 'property' in d and 'key' in d:
                known.append((d['property'], d['key'], text.strip()))
    return known


def match_known(prop, violation, known):
    for p, key, text in known:
        if p == prop and violation.get('key') == key:
            return text
    return None


# --------------------------------------------------------------- isolation

class ChildFailed(Exception):
    pass


def forked(fn, timeout=600):
    """Run fn() in a forked child of this process and return its (picklable)
    result.  Used where the state of THIS process must not be touched by the
    call -- a reference outcome that has to come from an interpreter in which
    nothing else was rendered before, or a whole case that must start from the
    state right after warm-up, so that replay of that case alone sees exactly
    what the batch saw.  The child has one thread; the caller must not hold
    locks.  An exception in the child is re-raised here as ChildFailed."""
    import faulthandler
    import pickle
    rd, wr = os.pipe()
    sys.stdout.flush()
    sys.stderr.flush()
    # a watchdog thread armed at fork time would leave its lock held in the
    # child for ever (CPython: dump_traceback_later after fork deadlocks):
    # disarm, fork, re-arm on both sides
    faulthandler.cancel_dump_traceback_later()
    # keep the collector of the child away from what it inherits (every
    # object it visits is a copied page)
    import gc
    gc.freeze()
    pid = os.fork()
    if pid == 0:
        code = 0
        try:
            os.close(rd)
            faulthandler.enable()
            faulthandler.dump_traceback_later(timeout, exit=True)
            try:
                out = ('ok', fn())
            except BaseException:
                out = ('exc', traceback.format_exc()[-3000:])
            data = pickle.dumps(out, protocol=pickle.HIGHEST_PROTOCOL)
            with os.fdopen(wr, 'wb') as f:
                f.write(data)
        except BaseException:
            code = 3
        finally:
            os._exit(code)
    os.close(wr)
    faulthandler.dump_traceback_later(timeout + 60, exit=True)
    chunks = []
    with os.fdopen(rd, 'rb') as f:
        while True:
            b = f.read(1 << 20)
            if not b:
                break
            chunks.append(b)
    _, status = os.waitpid(pid, 0)
    data = b''.join(chunks)
    if not data:
        raise ChildFailed('forked child died without a result (status %r)'
                          % (status,))
    kind, val = pickle.loads(data)
    if kind != 'ok':
        raise ChildFailed(val)
    return val


def _run_with_prelude(mod, case, prelude):
    for c in prelude:
        try:
            mod.run_case(c)
        except BaseException:
            pass
    return mod.run_case(case)


def run_case(mod, case, prelude=()):
    """Execute one case the way a batch does.  Modules that set CHUNK run
    their cases in forked children of the worker, CHUNK consecutive run
    indices per child, each child starting from the interpreter state right
    after warm-up; a case is then a pure function of (code, the cases run
    before it in its chunk, the case).  Here the same is done for one case:
    a forked child runs the prelude (the earlier cases of the chunk, when the
    violation needs them) and then the case."""
    if getattr(mod, 'CHUNK', 0):
        return forked(lambda: _run_with_prelude(mod, case, prelude),
                      mod.CASE_TIMEOUT)
    return mod.run_case(case)


# ------------------------------------------------------------------ worker

class Agg:
    """What one worker reports about a block of runs."""

    def __init__(self):
        self.evaluations = 0
        self.cases = 0
        self.steps = 0
        self.faults = {}
        self.probes = {}
        self.nontrivial = set()
        self.distinct = set()
        self.samples = []
        self.violations = []
        self.known_hits = {}
        self.errors = []
        self.digests = []
        self.truncated = False
        self.extra = {}

    def add_counts(self, dst, src):
        for k, v in src.items():
            dst[k] = dst.get(k, 0) + v

    def as_dict(self):
        return {
            'evaluations': self.evaluations, 'cases': self.cases,
            'steps': self.steps, 'faults': self.faults,
            'probes': self.probes, 'nontrivial': self.nontrivial,
            'distinct': self.distinct, 'samples': self.samples,
            'violations': self.violations, 'errors': self.errors,
            'known_hits': self.known_hits,
            'digests': self.digests, 'truncated': self.truncated,
            'extra': self.extra}

    def merge(self, r, cap=SET_CAP):
        """add what another Agg (as a dict) saw"""
        self.evaluations += r.get('evaluations', 0)
        self.cases += r.get('cases', 0)
        self.steps += r.get('steps', 0)
        self.add_counts(self.faults, r.get('faults', {}))
        self.add_counts(self.probes, r.get('probes', {}))
        self.nontrivial |= r.get('nontrivial', set())
        self.distinct |= r.get('distinct', set())
        for k, v in r.get('extra', {}).items():
            if isinstance(v, (set, frozenset)):
                cur = self.extra.setdefault(k, set())
                if len(cur) < cap:
                    cur.update(v)
            else:
                self.extra[k] = self.extra.get(k, 0) + v
        if len(self.samples) < 3:
            self.samples.extend(r.get('samples', [])[:1])
        self.violations.extend(r.get('violations', []))
        self.errors.extend(r.get('errors', []))
        for key, (cnt, rec) in r.get('known_hits', {}).items():
            k = self.known_hits.setdefault(key, [0, rec])
            k[0] += cnt
        self.truncated = self.truncated or r.get('truncated', False)
        self.digests.extend(r.get('digests', []))


def run_range(mod, base, lo, hi, tier, deadline, prelude=False):
    """generate and execute the runs lo..hi-1 in this process, in order"""
    import faulthandler
    agg = Agg()
    known = load_known()
    earlier = []
    for i in range(lo, hi):
        if time.time() > deadline:
            agg.truncated = True
            break
        seed = run_seed(base, mod.PROP, i)
        faulthandler.dump_traceback_later(mod.CASE_TIMEOUT, exit=True)
        case = None
        try:
            case = mod.gen_case(seed, tier)
            res = mod.run_case(case)
        except BaseException:
            agg.errors.append({'seed': seed, 'index': i,
                               'trace': traceback.format_exc()[-3000:]})
            faulthandler.cancel_dump_traceback_later()
            if case is not None and prelude:
                earlier.append(case)
            if len(agg.errors) > 3:
                break
            continue
        faulthandler.cancel_dump_traceback_later()
        agg.cases += 1
        agg.evaluations += res.get('evaluations', 1)
        agg.steps += res.get('steps', 0)
        agg.add_counts(agg.faults, res.get('faults', {}))
        agg.add_counts(agg.probes, res.get('probes', {}))
        for k, v in res.get('extra', {}).items():
            if isinstance(v, (int, float)):
                agg.extra[k] = agg.extra.get(k, 0) + v
            elif isinstance(v, (set, frozenset)):
                cur = agg.extra.setdefault(k, set())
                if len(cur) < SET_CAP:
                    cur.update(v)
        h = chash(case)
        agg.distinct.add(int(h, 16))       # ints: a third of the memory
        for nt in res.get('nontrivial', ()):
            agg.nontrivial.add(int(nt if isinstance(nt, str) else h, 16))
        agg.digests.append((i, '%d:%s' % (seed, res.get('digest', ''))))
        if len(agg.samples) < 1 and res.get('nontrivial'):
            agg.samples.append(mod.sample(case, res))
        for v in res.get('violations', ()):
            rec = {'seed': seed, 'index': i, 'case': case, 'violation': v}
            if match_known(mod.PROP, v, known) is not None:
                # listed finding: keep one example per key, never let it
                # crowd out an unlisted violation
                k = agg.known_hits.setdefault(v['key'], [0, rec])
                k[0] += 1
            elif len(agg.violations) < 6:
                if prelude:
                    rec['prelude'] = list(earlier)
                agg.violations.append(rec)
        if prelude:
            earlier.append(case)
    return agg


def worker(modname, base, lo, hi, tier, deadline):
    import faulthandler
    faulthandler.enable()
    mod = sys.modules[modname]
    chunk = getattr(mod, 'CHUNK', 0)
    if not chunk:
        return run_range(mod, base, lo, hi, tier, deadline).as_dict()
    agg = Agg()
    i = lo
    while i < hi:
        if time.time() > deadline:
            agg.truncated = True
            break
        j = min(hi, i + chunk)
        try:
            d = forked(lambda: run_range(mod, base, i, j, tier, deadline,
                                         prelude=True).as_dict(),
                       min(1800, mod.CASE_TIMEOUT * (j - i)))
            agg.merge(d)
            if len(agg.violations) > 6:
                del agg.violations[6:]
        except ChildFailed as e:
            agg.errors.append({'seed': None, 'index': i,
                               'trace': 'chunk %d-%d: %s' % (i, j, e)})
        if len(agg.errors) > 3:
            break
        i = j
    return agg.as_dict()


# ---------------------------------------------------------------- minimise

def minimise(mod, case, violation, budget_s=40.0, log=None, prelude=()):
    """Greedy delta-debugging over the prelude (the earlier cases of the
    chunk, when the violation needs them) and over mod.shrink(case), while
    the same rule of the same property keeps failing.
    -> (case, violation, trials, prelude)"""
    rule = violation['rule']
    key0 = violation.get('key')

    def pick(vs):
        # the same oracle rule AND the same key: a shrink step must not
        # wander from an unlisted violation to a listed (known) one
        same = [v for v in vs if v['rule'] == rule and v.get('key') == key0]
        return same

    def attempt(cand, pre):
        try:
            return pick(run_case(mod, cand, pre).get('violations', ()))
        except BaseException:
            return []
    t0 = time.time()
    tried = 0
    prelude = list(prelude)
    if prelude:
        # most violations need nothing from the cases before them
        tried += 1
        same = attempt(case, [])
        if same:
            prelude, violation = [], same[0]
        else:
            n = 2
            while len(prelude) >= 1 and time.time() - t0 < budget_s / 2:
                size = max(1, len(prelude) // n)
                for k in range(0, len(prelude), size):
                    cand = prelude[:k] + prelude[k + size:]
                    tried += 1
                    same = attempt(case, cand)
                    if same:
                        prelude, violation = cand, same[0]
                        n = max(n - 1, 2)
                        break
                else:
                    if size == 1:
                        break
                    n = min(len(prelude), n * 2)
    if hasattr(mod, 'pin'):
        cand = mod.pin(case, violation)
        if cand is not None:
            same = attempt(cand, prelude)
            if same:
                case, violation = cand, same[0]
    changed = True
    while changed and time.time() - t0 < budget_s:
        changed = False
        for cand in mod.shrink(case):
            if time.time() - t0 > budget_s:
                break
            tried += 1
            same = attempt(cand, prelude)
            if same:
                case, violation = cand, same[0]
                changed = True
                break
    return case, violation, tried, prelude


# ------------------------------------------------------------------ replay

def write_replay(mod, seed, case, violation, note='', prelude=()):
    os.makedirs(REPLAYS, exist_ok=True)
    path = os.path.join(REPLAYS, '%s-%d.json' % (mod.PROP, seed))
    with open(path, 'w', encoding='utf-8') as f:
        json.dump({'property': mod.PROP, 'seed': seed, 'case': case,
                   'prelude': list(prelude),
                   'violation': violation, 'repo_head': repo_head(),
                   'note': note,
                   'replay_cmd': './check replay %s' % path},
                  f, indent=1, sort_keys=True, default=repr)
    return path


def replay(path, modules):
    d = json.load(open(path, encoding='utf-8'))
    mod = modules[d['property']]
    res = run_case(mod, d['case'], d.get('prelude') or ())
    want = d['violation']['rule']
    got = [v for v in res.get('violations', ()) if v['rule'] == want]
    if got:
        print('VIOLATION property=%s replay=%s' % (d['property'], path))
        print('  rule=%s key=%s' % (got[0]['rule'], got[0].get('key')))
        print('  detail=%s' % json.dumps(got[0].get('detail'),
                                        default=repr)[:1500])
        return 1
    print('replay of %s did not reproduce rule %s (violations now: %s)'
          % (path, want, [v['rule'] for v in res.get('violations', ())]))
    return 3


def replay_in_fresh_process(path):
    import subprocess
    env = dict(os.environ)
    r = subprocess.run([sys.executable, '-B',
                        os.path.join(VERIF, 'sim', 'cli.py'), 'replay', path],
                       capture_output=True, text=True, env=env, timeout=300)
    return r.returncode == 1, r.stdout


# --------------------------------------------------------------- run check

def run_check(mod, tier):
    from concurrent.futures import ProcessPoolExecutor
    import multiprocessing
    t0 = time.time()
    base = base_seed()
    n_runs, wall_cap = mod.TIERS[tier]
    if os.environ.get('VERIF_RUNS'):
        n_runs = int(os.environ['VERIF_RUNS'])
    if hasattr(mod, 'warmup'):
        mod.warmup()
    deadline = t0 + wall_cap
    nblocks = max(1, min(n_runs, WORKERS * 6))
    step = (n_runs + nblocks - 1) // nblocks
    chunk = getattr(mod, 'CHUNK', 0)
    if chunk:
        # chunks are [k*CHUNK, (k+1)*CHUNK) whatever the number of workers
        step = ((step + chunk - 1) // chunk) * chunk
    blocks = [(lo, min(lo + step, n_runs)) for lo in range(0, n_runs, step)]
    results = []
    ctx = multiprocessing.get_context('fork')
    if WORKERS <= 1:
        for lo, hi in blocks:
            results.append(worker(mod.__name__, base, lo, hi, tier, deadline))
    else:
        with ProcessPoolExecutor(max_workers=WORKERS, mp_context=ctx) as ex:
            futs = [ex.submit(worker, mod.__name__, base, lo, hi, tier,
                              deadline) for lo, hi in blocks]
            for (lo, hi), f in zip(blocks, futs):
                try:
                    results.append(f.result(timeout=wall_cap + 600))
                except BaseException as e:
                    results.append({'errors': [{
                        'seed': None, 'index': lo,
                        'trace': 'worker for block %d-%d died: %r'
                                 % (lo, hi, e)}]})
    tot = Agg()
    digests = []
    violations, errors = [], []
    for r in results:
        tot.evaluations += r.get('evaluations', 0)
        tot.cases += r.get('cases', 0)
        tot.steps += r.get('steps', 0)
        tot.add_counts(tot.faults, r.get('faults', {}))
        tot.add_counts(tot.probes, r.get('probes', {}))
        tot.nontrivial |= r.get('nontrivial', set())
        tot.distinct |= r.get('distinct', set())
        for k, v in r.get('extra', {}).items():
            if isinstance(v, set):
                cur = tot.extra.setdefault(k, set())
                if len(cur) < SET_CAP * 8:
                    cur.update(v)
            else:
                tot.extra[k] = tot.extra.get(k, 0) + v
        if len(tot.samples) < 3:
            tot.samples.extend(r.get('samples', [])[:1])
        violations.extend(r.get('violations', []))
        errors.extend(r.get('errors', []))
        tot.truncated = tot.truncated or r.get('truncated', False)
        digests.extend(r.get('digests', []))

    digest = hashlib.sha256()
    for _, dgs in sorted(digests):
        digest.update((dgs + ';').encode())
    known = load_known()
    known_hit, new = {}, []
    known_counts = {}
    for r in results:
        for key, (cnt, rec) in r.get('known_hits', {}).items():
            known_counts[key] = known_counts.get(key, 0) + cnt
            text = match_known(mod.PROP, rec['violation'], known)
            known_hit.setdefault(key, (text, rec))
    for v in violations:
        new.append(v)
    exit_code = 0
    lines = []
    for key, (text, v) in sorted(known_hit.items()):
        lines.append('KNOWN-FINDING: property=%s %s (key=%s, e.g. seed %d)'
                     % (mod.PROP, text, key, v['seed']))
    reported = []
    if new:
        exit_code = 1
        seen_rules = set()
        for v in new:
            rk = (v['violation']['rule'], v['violation'].get('key'))
            if rk in seen_rules or len(reported) >= 3:
                continue
            seen_rules.add(rk)
            case, viol, tried, pre = minimise(
                mod, v['case'], v['violation'],
                prelude=v.get('prelude') or ())
            path = write_replay(mod, v['seed'], case, viol,
                                note='minimised with %d trials' % tried,
                                prelude=pre)
            ok, out = replay_in_fresh_process(path)
            note = 'minimised, replays in a fresh process'
            if pre:
                note += (' together with %d earlier case(s) of its chunk '
                         '(state kept by the process)' % len(pre))
            if not ok:
                path = write_replay(mod, v['seed'], v['case'],
                                    v['violation'],
                                    note='minimisation unstable; '
                                         'unminimised case written',
                                    prelude=v.get('prelude') or ())
                ok2, out = replay_in_fresh_process(path)
                note = ('minimisation unstable; unminimised case %s'
                        % ('replays' if ok2 else 'DOES NOT REPLAY'))
            reported.append({'seed': v['seed'], 'replay': path,
                             'rule': viol['rule'], 'key': viol.get('key'),
                             'note': note})
            lines.append('VIOLATION property=%s replay=%s' % (mod.PROP, path))
            lines.append('  rule=%s key=%s seed=%d (%s)'
                         % (viol['rule'], viol.get('key'), v['seed'], note))
            lines.append('  detail=%s' % json.dumps(viol.get('detail'),
                                                   default=repr)[:1200])
    if errors and exit_code == 0:
        exit_code = 2
    for e in errors[:3]:
        lines.append('HARNESS-ERROR property=%s seed=%s\n%s'
                     % (mod.PROP, e.get('seed'), e.get('trace')))

    wall = time.time() - t0
    cov = {
        'evaluations': tot.evaluations,
        'distinct_nontrivial': len(tot.nontrivial),
        'rule': mod.RULE,
        'samples': tot.samples or [{'note': 'no non-trivial sample'}],
        'cases_generated': tot.cases,
        'distinct_cases': len(tot.distinct),
        'logical_steps': tot.steps,
        'logical_step_unit': mod.STEP_UNIT,
        'simulated_time': 'this library has no clock; simulated time is '
                          'counted in logical steps (%s)' % mod.STEP_UNIT,
        'runs_per_hour': int(tot.evaluations / max(wall, 1e-6) * 3600),
        'seeds': {'base': base, 'first_run_index': 0,
                  'last_run_index': n_runs - 1,
                  'derivation': 'sha256("<base>:<property>:<i>")[:6]'},
        'faults_fired': dict(sorted(tot.faults.items())),
        'reach_probes': dict(sorted(tot.probes.items())),
        'probes_at_zero': sorted(p for p in getattr(mod, 'PROBES', ())
                                 if not tot.probes.get(p)),
        'truncated_by_wall_cap': tot.truncated,
        'known_findings_hit': known_counts,
        'violations_reported': reported,
        'harness_errors': len(errors),
        'batch_digest': digest.hexdigest()[:16],
        'workers': WORKERS,
        'repo_head': repo_head(),
        'components': COMPONENTS,
        'exhaustive': False,
    }
    for k, v in tot.extra.items():
        cov[k] = len(v) if isinstance(v, set) else v
    if hasattr(mod, 'finish_coverage'):
        mod.finish_coverage(cov, tot)
    ev = {
        'property_id': mod.PROP, 'tier': tier, 'seed': base,
        'level': mod.LEVEL, 'coverage': cov,
        'assumptions': mod.ASSUMPTIONS, 'wall_s': round(wall, 2),
        'violations': len(new),
    }
    os.makedirs(EVIDENCE, exist_ok=True)
    tmp = os.path.join(EVIDENCE, '%s.json.tmp' % mod.PROP)
    with open(tmp, 'w', encoding='utf-8') as f:
        json.dump(ev, f, indent=1, sort_keys=True, default=repr)
    os.replace(tmp, os.path.join(EVIDENCE, '%s.json' % mod.PROP))
    print('%s %s: %d evaluations over %d cases (%d distinct non-trivial), '
          '%d logical steps, %.1fs wall, digest %s%s'
          % (mod.PROP, tier, tot.evaluations, tot.cases,
             len(tot.nontrivial), tot.steps, wall, cov['batch_digest'],
             ' [truncated by wall cap]' if tot.truncated else ''))
    for ln in lines:
        print(ln)
    if exit_code == 0:
        print('%s held on everything explored' % mod.PROP)
    return exit_code
