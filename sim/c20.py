"""C20 -- dtml-tree: state survives its cookie/URL encoding and tracks clicks.

Server (real): the dtml-tree tag rendered through HTML(...), stateless.
Client + network (stub): a browser with a cookie jar, the current page and a
stack of older pages; it clicks the links the tag generated, reloads, resends,
uses stale links and loses its cookie.  Reference model: the set of expanded
node paths.
"""
import copy
import hashlib
import re

from . import core

PROP = 'C20'
LEVEL = 'exploration'
STEP_UNIT = 'HTTP-like requests rendered by the real tree tag'
CHUNK = 16      # consecutive runs per forked child (core.worker)
CASE_TIMEOUT = 120
TIERS = {'quick': (40000, 150), 'thorough': (1500000, 1800)}
PROBES = ['state_compressed_gt57', 'cookie_b64_gt76', 'token_compressed_gt57',
          'collapse_with_expanded_descendant', 'stale_click', 'dup_request',
          'cookie_loss', 'expand_all', 'collapse_all', 'nonascii_id',
          'astral_id', 'acquisition_wrapped_nodes', 'lone_surrogate_id', 'surrogate_pair_in_id', 'int_id', 'same_id_in_two_subtrees', 'stale_undefined',
          'assume_children_leaf_expanded', 'codec_case', 'depth_ge_4',
          'two_expanded_siblings', 'state_json_gt32k',
          'leaf_without_branches_method', 'foreign_cookie', 'falsy_id']
RULE = ('seeded trees (1..40 nodes, about one in a hundred with 400-600 nodes '
        'and 30-character non-ASCII ids; sometimes ids that collide when joined with "/"; depth <= 6, ids of 1..30 chars over '
        'ASCII / Latin-1 / BMP / astral alphabets or ints, ids unique among '
        'siblings only; in some trees part of the leaves are plain content '
        'objects without any branches method) x tag options x histories of 1..40 browser actions '
        '(click i-th link, expand_all, collapse_all, reload; faults: resend, '
        'stale link from an older page, lost cookie, state cookie written by '
        'another tree page), plus direct codec round '
        'trips of synthetic states up to several kB.  Non-trivial: a history '
        'with a collapse of a node that had an expanded descendant, or a '
        'written state whose compressed form exceeded 57 bytes, or a fired '
        'network fault.  distinct = distinct case hash.')
ASSUMPTIONS = [
    'rows are located by the body marker [[idx]] and links by the '
    'tree-[ec]=TOKEN pattern only; HTML decoration is ignored',
    'sibling ids are unique (the state format cannot distinguish equal '
    'sibling ids); ids avoid the characters [ ] < > = # " &',
    'a stale link whose ancestors are not expanded in the carried state has '
    'no defined outcome: only codec, page<->cookie and link consistency are '
    'required there',
    'with assume_children nothing is asserted about links of leaves',
    'truncated or corrupted cookies are not injected',
    'every response is expected to write the tree-s cookie (the statement '
    'speaks of "the state cookie written"): a response that leaves it out '
    'is reported (cookie:not-written), also when the state did not change',
]

ALPH = {
    'ascii': 'abcdefghijklmnopqrstuvwxyzABCXYZ0123456789 _-.,:;!/+\'()*',
    'latin1': 'abcxyzäöüßéèñÿ© ',
    'bmp': 'ab中文日本ЖфΩאش€ ',
    'astral': 'a\U0001F600\U0001F333\U00010348\U0001D11E ',
    # lone surrogates: what os.fsdecode makes of a file name that is not
    # valid UTF-8 (surrogateescape); legal in a str, not encodable as UTF-8
    # U+E000 stands for the high surrogate U+D800 (real()): a case has to
    # survive its own JSON replay file, and JSON joins a high and a low
    # surrogate that follow each other into one character - which is also
    # known finding F7 of the package's state codec
    'surrogate': 'ab\udce9\udcff\udc80 ',
    'surrpair': 'ab\udce9\ue000',
}
PAIR = re.compile('[\ud800-\udbff][\udc00-\udfff]')


def real(t):
    """the id a case stands for"""
    if isinstance(t, str):
        return t.replace('\ue000', '\ud800')
    if isinstance(t, list):
        return [real(x) for x in t]
    return t


def has_pair(t):
    if isinstance(t, str):
        return bool(PAIR.search(t))
    if isinstance(t, list):
        return any(has_pair(x) for x in t)
    return False



class Node:
    def __init__(self, idx, tid, kids):
        self.idx, self.tid, self.kids = idx, tid, kids
        self.skey = idx

    def tpId(self):
        return self.tid

    @property
    def myid(self):
        return self.tid

    def tpValues(self):
        return list(self.kids)

    kids_m = tpValues


class BareNode:
    """a plain content object: it has an id but no branches method at all
    (the tag supports such leaves)"""

    kids = ()

    def __init__(self, idx, tid, kids=()):
        self.idx, self.tid = idx, tid
        self.skey = idx

    def tpId(self):
        return self.tid

    @property
    def myid(self):
        return self.tid


class BareNodeOtherId(BareNode):
    def tpId(self):
        return 'not-the-id'


class NodeOtherId(Node):
    """for trees rendered with id=\"myid\": tpId exists but is NOT the id"""

    def tpId(self):
        return 'not-the-id'


_ACQ = []


def acq_classes():
    """nodes as they live in a ZODB site: Acquisition wrappers, and the
    branches method is ONE script object kept in the site root that every
    node below acquires (branches="branchlist")"""
    if not _ACQ:
        from Acquisition import Implicit, aq_base, aq_parent

        class AcqNode(Implicit):
            def __init__(self, idx, tid, kids):
                self.idx, self.tid, self.kids = idx, tid, kids
                self.skey = idx

            def tpId(self):
                return self.tid

            @property
            def myid(self):
                return self.tid

        class AcqNodeOtherId(AcqNode):
            def tpId(self):
                return 'not-the-id'

        class BranchScript(Implicit):
            def __call__(self):
                ctx = aq_parent(self)     # the node it was acquired through
                return [k.__of__(ctx) for k in aq_base(ctx).kids]
        _ACQ.extend([AcqNode, AcqNodeOtherId, BranchScript])
    return _ACQ


class Response:
    def __init__(self):
        self.cookies = {}

    def setCookie(self, name, value, **kw):
        self.cookies[name] = value


def gen_id(r, used, long=False):
    while True:
        how = r.random()
        if how < 0.02 and not long:
            tid = r.choice([0, ''])          # valid ids that are falsy
        elif how < 0.12 and not long:
            tid = r.randint(0, 3000)
        else:
            al = ALPH[r.choice(['bmp', 'astral'] if long else
                               ['ascii', 'ascii', 'latin1', 'bmp', 'astral']
                               if how < 0.94 else ['surrogate']
                               if how < 0.9985 else ['surrpair'])]
            n = 30 if long else r.choice([1, 1, 2, 3, 5, 8, 13, 21, 30])
            tid = ''.join(r.choice(al) for _ in range(n))
        if tid not in used and str(tid) not in map(str, used):
            used.add(tid)
            return tid


def gen_tree(r, nmax, dmax, huge=False):
    counter = [0]
    pool = [gen_id(r, set()) for _ in range(3)]   # ids reused across subtrees

    def mk(depth):
        counter[0] += 1
        idx = 'n%d' % counter[0]
        kids = []
        used = set()
        if depth < dmax:
            nk = r.choice([0, 0, 1, 2, 2, 3, 4]) if depth else \
                r.choice([1, 2, 3, 4, 5])
            if huge:
                nk = r.choice([2, 2, 3])
            for _ in range(nk):
                if counter[0] >= nmax:
                    break
                k = mk(depth + 1)
                cand = r.choice(pool)
                if r.random() < 0.2 and str(cand) not in map(str, used):
                    k[1] = cand
                    used.add(cand)
                else:
                    k[1] = gen_id(r, used, huge)
                kids.append(k)
        return [idx, None, kids]
    root = mk(0)
    root[1] = gen_id(r, set())
    if r.random() < 0.12:
        # two different paths that read the same when joined with '/':
        # a node 'a' with a child 'b', and a sibling of 'a' called 'a/b'
        def walk(n):
            yield n
            for k_ in n[2]:
                yield from walk(k_)
        cands = [n for n in walk(root) if len(n[2]) >= 2 and any(
            k_[2] and k_[2][0][2] for k_ in n[2])]
        if cands:
            par = r.choice(cands)
            a = r.choice([k_ for k_ in par[2] if k_[2] and k_[2][0][2]])
            sib = r.choice([k_ for k_ in par[2] if k_ is not a])
            new = '%s/%s' % (a[1], a[2][0][1])
            if new not in [str(k_[1]) for k_ in par[2]]:
                sib[1] = new
                if not sib[2]:
                    counter[0] += 1
                    sib[2].append(['n%d' % counter[0], 'leaf', []])
    return root


def gen_case(seed, tier):
    r = core.stream(seed, 'c20')
    if r.random() < 0.08:
        # direct codec round trip of a synthetic state
        def st(depth):
            out = []
            used = set()
            for _ in range(r.choice([1, 2, 3, 6])):
                e = [gen_id(r, used)]
                if depth < 5 and r.random() < 0.5:
                    e.append(st(depth + 1))
                out.append(e)
            return out
        return {'kind': 'codec', 'state': [[gen_id(r, set()), st(0)]]}
    nmax = r.choice([1, 3, 7, 7, 12, 20, 40])
    dmax = r.choice([1, 2, 3, 4, 4, 6])
    # now and then a really big state: hundreds of open nodes with long
    # non-ASCII ids (tens of kilobytes of state before compression)
    huge = r.random() < 0.012
    if huge:
        nmax, dmax = r.choice([400, 600]), r.choice([8, 10])
    tree = gen_tree(r, nmax, dmax, huge)
    opts = {}
    if r.random() < 0.15:
        opts['branches'] = 'kids_m'
    elif r.random() < 0.15:
        opts['branches_expr'] = 'kidsof(idx)'
    if r.random() < 0.15:
        opts['id'] = 'myid'
    if r.random() < 0.12:
        opts['sort'] = 'skey'
    if r.random() < 0.12:
        opts['reverse'] = 1
    if r.random() < 0.15:
        opts['nowrap'] = 1
    if r.random() < 0.1:
        opts['urlparam'] = 'x=1'
    # (the tag's prefix= option raises 'dictionary changed size during
    # iteration' on every render under Python 3; it is outside what C20
    # quantifies over and is left out -- noted in DESIGN.md)
    if r.random() < 0.15:
        opts['assume_children'] = 1
    opts['src'] = r.choice(['name', 'name', 'expr'])
    faulty = r.random() < 0.5
    hist = []
    for _ in range(r.choice([1, 2, 3, 5, 5, 8, 12, 20, 40])):
        x = r.random()
        if x < 0.06:
            op = {'op': 'expand_all'}
        elif x < 0.10:
            op = {'op': 'collapse_all'}
        elif x < 0.15:
            op = {'op': 'reload'}
        else:
            op = {'op': 'click', 'i': r.randint(0, 60),
                  'prefer': r.choice(['any', 'any', 'e', 'c', 'deep'])}
        if faulty:
            y = r.random()
            if y < 0.10:
                op = {'op': 'dup'}
            elif y < 0.22 and op['op'] == 'click':
                op['stale'] = r.randint(1, 4)
            elif y < 0.30:
                op['loss'] = True
            elif y < 0.36:
                op['foreign'] = True
        hist.append(op)
    if huge:
        hist = [{'op': 'expand_all'}, {'op': 'reload'}] + hist[:3]
    bare = []
    if r.random() < 0.3:
        # some leaves are plain content objects without a branches method
        def leaves(n):
            if not n[2]:
                yield n[0]
            for k_ in n[2]:
                yield from leaves(k_)
        bare = [i for i in leaves(tree) if i != tree[0] and r.random() < 0.5]
    acq = core.stream(seed, 'c20acq').random() < 0.06
    if acq:
        opts.pop('branches_expr', None)
        opts['branches'] = 'branchlist'
        bare = []
    return {'kind': 'sim', 'tree': tree, 'opts': opts, 'history': hist,
            'bare': bare, 'acq': acq}


def build(tree, cls=Node, bare=(), bare_cls=BareNode):
    idx, tid, kids = tree
    tid = real(tid)
    if not kids and idx in bare:
        return bare_cls(idx, tid)
    return cls(idx, tid, [build(k, cls, bare, bare_cls) for k in kids])


def template_src(opts):
    a = ['root' if opts.get('src') != 'expr' else 'expr="root"']
    for k in ('branches', 'branches_expr', 'id', 'sort', 'urlparam', 'prefix'):
        if k in opts:
            a.append('%s="%s"' % (k, opts[k]))
    for k in ('reverse', 'nowrap', 'assume_children'):
        if opts.get(k):
            a.append(k)
    return '<dtml-tree %s>[[<dtml-var idx>]]</dtml-tree>' % ' '.join(a)


def order(kids, opts):
    kids = list(kids)
    if 'sort' in opts:
        kids.sort(key=lambda n: n.skey)
    if opts.get('reverse'):
        kids.reverse()
    return kids


def state_to_set(state, rootid):
    """expanded paths described by a decoded state (None if malformed)."""
    E = set()
    try:
        if not state:
            return E
        top = state[0]
        if top[0] != rootid:
            return None

        def walk(entries, path):
            for e in entries:
                if not isinstance(e, list) or not e:
                    raise ValueError(e)
                p = path + (e[0],)
                E.add(p)
                if len(e) > 1:
                    walk(e[1], p)
        if len(top) > 1:
            walk(top[1], ())
        return E
    except Exception:
        return None


def expected_rows(root, E, opts):
    out = []

    def rec(node, path):
        for c in order(node.kids, opts):
            p = path + (c.tid,)
            out.append((c.idx, p, bool(c.kids)))
            if p in E and c.kids:
                rec(c, p)
    rec(root, ())
    return out


def all_parent_paths(root):
    E = set()

    def rec(node, path):
        for c in node.kids:
            if c.kids:
                p = path + (c.tid,)
                E.add(p)
                rec(c, p)
    rec(root, ())
    return E


LINK = re.compile(r'href="[^"?]*\?(?:[^"#]*&)?tree-([ec])=([^"#&;\s]*)#')
# what a cookie value / URL query argument can carry unharmed: no white
# space or control characters and none of " ; , & # < >
SAFE_TOKEN = re.compile(r'[^\s\x00-\x1f";,&#<>]*')


def compressed_len(state):
    """size measure for the reach probes, independent of the package"""
    import json
    import zlib
    return len(zlib.compress(json.dumps(state).encode('utf-8')))
MARK = re.compile(r'\[\[(n\d+)\]\]')


def parse_page(html):
    """rows are located by the body markers only, a row's link is the
    tree-[ec]=TOKEN link between the previous row's marker and its own; no
    assumption on the table markup around them"""
    rows = []
    pos = 0
    for m in MARK.finditer(html):
        seg = html[pos:m.start()]
        links = LINK.findall(seg)
        rows.append((m.group(1), tuple(links[0]) if links else None,
                     len(links)))
        pos = m.end()
    return rows


def run_case(case):
    from TreeDisplay import TreeTag
    violations, probes, faults = [], {}, {}

    def probe(n):
        probes[n] = probes.get(n, 0) + 1

    def viol(rule, key, **detail):
        violations.append({'rule': rule, 'key': key, 'detail': detail})

    if case['kind'] == 'codec':
        probe('codec_case')
        st = real(case['state'])
        try:
            enc = TreeTag.encode_seq(st)
            dec = dec2 = TreeTag.decode_seq(enc)
            if compressed_len(st) > 57:
                probe('state_compressed_gt57')
            if len(enc) > 76:
                probe('cookie_b64_gt76')
            # link tokens are built by two internal helpers; when a
            # refactoring removed them there is nothing more to check here
            comp_f = getattr(TreeTag, 'compress', None)
            enc_f = getattr(TreeTag, 'encode_str', None)
            if comp_f is not None and enc_f is not None:
                tok = enc_f(comp_f(__import__('json').dumps(st)))
                if isinstance(tok, bytes):
                    tok = tok.decode('ascii')
                dec2 = TreeTag.decode_seq(tok)
        except Exception as e:
            viol('codec', 'codec:exception', state=st, error=repr(e))
            dec = dec2 = st
            enc = ''
        if dec != st or dec2 != st:
            viol('codec', 'codec:roundtrip', state=st, decoded=dec,
                 encoded=enc)
        if not SAFE_TOKEN.fullmatch(enc or ''):
            viol('codec', 'codec:alphabet', encoded=enc)
        if violations and has_pair(st):
            probe('surrogate_pair_in_id')
            violations[0]['key'] = 'codec:surrogate-pair-in-id'
        return {'violations': violations[:1], 'steps': 1, 'probes': probes,
                'faults': {}, 'nontrivial': [1] if len(enc) > 76 else [],
                'digest': hashlib.sha256(enc.encode()).hexdigest()[:12]}

    from DocumentTemplate import HTML
    import json

    def tree_ids(t):
        yield t[1]
        for k_ in t[2]:
            yield from tree_ids(k_)
    pair_case = any(has_pair(real(x)) for x in tree_ids(case['tree']))
    if pair_case:
        probe('surrogate_pair_in_id')

    def mark(vs):
        # known finding F7: an id in which a high surrogate is directly
        # followed by a low one does not survive the JSON state codec
        if vs and pair_case:
            vs[0]['key'] = 'codec:surrogate-pair-in-id'
        return vs
    other = case['opts'].get('id')
    if case.get('acq'):
        AcqNode, AcqNodeOtherId, BranchScript = acq_classes()
        root = build(case['tree'], AcqNodeOtherId if other else AcqNode)
        root.branchlist = BranchScript()
        probe('acquisition_wrapped_nodes')
    else:
        root = build(case['tree'], NodeOtherId if other else Node,
                     set(case.get('bare', ())),
                     BareNodeOtherId if other else BareNode)
    if case.get('bare'):
        probe('leaf_without_branches_method')
    opts = case['opts']
    byidx = {}

    def reg(n, depth):
        byidx[n.idx] = n
        if depth >= 4:
            probe('depth_ge_4')
        t = n.tid
        if not t and n is not root:
            probe('falsy_id')
        if isinstance(t, int):
            probe('int_id')
        elif any(0xd800 <= ord(ch) <= 0xdfff for ch in t):
            probe('lone_surrogate_id')
        elif any(ord(ch) > 0xffff for ch in t):
            probe('astral_id')
        elif any(ord(ch) > 127 for ch in t):
            probe('nonascii_id')
        for k in n.kids:
            reg(k, depth + 1)
    reg(root, 0)
    _ids = [str(n.tid) for n in byidx.values()]
    if len(_ids) != len(set(_ids)):
        probe('same_id_in_two_subtrees')
    tmpl = HTML(template_src(opts))
    rootid = root.tid

    def kidsof(idx):
        return list(byidx[idx].kids)

    jar = {}
    pages = []        # older pages: list of rows
    last_req = None
    model_E = set()   # the model's expanded set (fault-free evolution)
    nontrivial = []
    log = []
    steps = 0

    def apply(E, kind, path):
        E = set(E)
        if kind == 'e':
            E.add(path)
        elif kind == 'c':
            E = {p for p in E if p[:len(path)] != path}
        return E

    def request(params, carried_cookie, what, expect):
        """One request; check all invariants. Returns rows or None."""
        nonlocal steps
        steps += 1
        resp = Response()
        req = {'root': root, 'URL': 'http://host/folder/page',
               'RESPONSE': resp, 'kidsof': kidsof}
        if carried_cookie is not None:
            req['tree-s'] = carried_cookie
        req.update(params)
        try:
            html = tmpl(None, req)
        except Exception as e:
            viol('render', 'render:exception', what=what, error=repr(e),
                 params={k: v for k, v in params.items()})
            return None
        cookie = resp.cookies.get('tree-s')
        if cookie is None:
            viol('cookie', 'cookie:not-written', what=what)
            return None
        jar['tree-s'] = cookie
        # codec
        try:
            st = TreeTag.decode_seq(cookie)
            re_enc = TreeTag.encode_seq(st)
        except Exception as e:
            viol('codec', 'codec:cookie-undecodable', what=what,
                 cookie=cookie, error=repr(e))
            return None
        if compressed_len(st) > 57:
            probe('state_compressed_gt57')
            nontrivial.append(1)
        if len(json.dumps(st)) > 32768:
            probe('state_json_gt32k')
        if len(cookie) > 76:
            probe('cookie_b64_gt76')
        if TreeTag.decode_seq(re_enc) != st:
            viol('codec', 'codec:roundtrip', what=what, state=st)
        E = state_to_set(st, rootid)
        if E is None:
            viol('cookie', 'cookie:malformed-state', what=what, state=st)
            return None
        rows = parse_page(html)
        exp_rows = expected_rows(root, E, opts)
        if [x[0] for x in rows] != [x[0] for x in exp_rows]:
            viol('page_vs_cookie', 'page:rows-differ-from-cookie-state',
                 what=what, shown=[x[0] for x in rows],
                 expected=[x[0] for x in exp_rows], state=st)
            return None
        # links
        out_rows = []
        for (idx, link, nlinks), (_, path, haskids) in zip(rows, exp_rows):
            if haskids:
                if nlinks != 1:
                    viol('links', 'links:count', what=what, node=idx,
                         count=nlinks)
                    return None
                want = 'c' if path in E else 'e'
                if link[0] != want:
                    viol('links', 'links:wrong-kind', what=what, node=idx,
                         kind=link[0], expanded=path in E)
                    return None
            elif link is not None and not opts.get('assume_children'):
                viol('links', 'links:leaf-has-link', what=what, node=idx)
                return None
            if link is not None:
                try:
                    tp = TreeTag.decode_seq(link[1])
                except Exception as e:
                    tp = repr(e)
                if len(link[1]) > 76:
                    probe('token_compressed_gt57')
                if tp != [rootid] + list(path):
                    viol('links', 'links:token-not-node-path', what=what,
                         node=idx, token=link[1], decoded=tp,
                         path=[rootid] + list(path))
                    return None
            out_rows.append((idx, path, link))
        # "the state cookie written describes that same set": nothing in it
        # but nodes that are on the page (an expanded node is shown, since
        # all its ancestors are expanded)
        phantom = E - {tuple(path) for (_i, path, _l) in out_rows}
        if phantom:
            viol('cookie', 'cookie:state-names-a-node-not-shown', what=what,
                 phantom=sorted(map(list, phantom), key=repr)[:4], state=st)
            return None
        # sibling probe
        for p in E:
            if any(q != p and q[:-1] == p[:-1] for q in E):
                probe('two_expanded_siblings')
                break
        if opts.get('assume_children'):
            for (idx, path, haskids) in exp_rows:
                if not haskids and path in E:
                    probe('assume_children_leaf_expanded')
        # state evolution
        if expect is not None and E != expect:
            viol('evolution', 'state:not-model-after-' + what.split(':')[0],
                 what=what, written=sorted(map(list, E), key=repr),
                 model=sorted(map(list, expect), key=repr), state=st)
            return None
        log.append((what, cookie))
        return out_rows, E

    # first page load
    cur = request({}, None, 'load', set())
    if cur is None:
        return result(mark(violations), steps, probes, faults, nontrivial, log)
    rows, model_E = cur
    for op in case['history']:
        carried = jar.get('tree-s')
        carried_E = model_E
        lost = False
        if op.get('loss'):
            carried, carried_E, lost = None, set(), True
            faults['net.cookie_loss'] = faults.get('net.cookie_loss', 0) + 1
            probe('cookie_loss')
            nontrivial.append(1)
        if op.get('foreign') and not lost:
            # the jar holds the state cookie another tree page of the same
            # site wrote (the cookie name is shared): for this tree that is
            # as good as no cookie
            carried = TreeTag.encode_seq(
                [['another tree %s' % rootid, [['fa', [['fb']]], ['fc']]]])
            carried_E = set()
            faults['net.foreign_cookie'] = faults.get(
                'net.foreign_cookie', 0) + 1
            probe('foreign_cookie')
            nontrivial.append(1)
        kind = op['op']
        if kind == 'dup':
            if last_req is None:
                continue
            faults['net.dup'] = faults.get('net.dup', 0) + 1
            probe('dup_request')
            nontrivial.append(1)
            params, what, mk, mp, defined = last_req
            what = 'dup-' + what
        elif kind == 'reload':
            params, what, mk, mp, defined = {}, 'reload', None, None, True
        elif kind == 'expand_all':
            probe('expand_all')
            params, what, mk, mp, defined = {'expand_all': 1}, 'expand_all', \
                'all', None, True
        elif kind == 'collapse_all':
            probe('collapse_all')
            params, what, mk, mp, defined = {'collapse_all': 1}, \
                'collapse_all', 'none', None, True
        else:
            src_rows = rows
            stale = False
            if op.get('stale') and pages:
                src_rows = pages[-min(op['stale'], len(pages))]
                stale = True
            links = [(idx, path, l) for idx, path, l in src_rows if l]
            pref = op.get('prefer')
            if pref in ('e', 'c'):
                sel = [x for x in links if x[2][0] == pref] or links
            elif pref == 'deep' and links:
                d = max(len(x[1]) for x in links)
                sel = [x for x in links if len(x[1]) == d]
            else:
                sel = links
            if not sel:
                continue
            idx, path, link = sel[op['i'] % len(sel)]
            if stale:
                faults['net.stale'] = faults.get('net.stale', 0) + 1
                probe('stale_click')
                nontrivial.append(1)
            params = {'tree-' + link[0]: link[1]}
            what = ('expand:' if link[0] == 'e' else 'collapse:') + idx
            mk, mp = link[0], path
            defined = True
        # is the outcome defined by the property?
        if mk in ('e', 'c'):
            anc_ok = all(mp[:k] in carried_E for k in range(1, len(mp)))
            defined = anc_ok
            if not anc_ok:
                probe('stale_undefined')
            if mk == 'c' and any(p != mp and p[:len(mp)] == mp
                                 for p in carried_E):
                probe('collapse_with_expanded_descendant')
                nontrivial.append(1)
            expect = apply(carried_E, mk, mp) if defined else None
        elif mk == 'all':
            expect = all_parent_paths(root)
        elif mk == 'none':
            expect = set()
        else:
            expect = carried_E
        if kind != 'dup':
            last_req = (params, what, mk, mp, defined)
        pages.append(rows)
        got = request(params, carried, what, expect)
        if got is None:
            break
        rows, model_E = got
    return result(mark(violations), steps, probes, faults, nontrivial, log)


def result(violations, steps, probes, faults, nontrivial, log):
    dg = hashlib.sha256(repr(log).encode()).hexdigest()[:12]
    return {'violations': violations[:1], 'steps': steps, 'probes': probes,
            'faults': faults, 'nontrivial': nontrivial[:1], 'digest': dg,
            'evaluations': 1}


def sample(case, res):
    if case['kind'] == 'codec':
        return case
    return {'template': template_src(case['opts']),
            'tree': case['tree'], 'history': case['history'][:12],
            'requests': res['steps']}


def shrink(case):
    if case['kind'] == 'codec':
        st = case['state']

        def variants(entries):
            for i in range(len(entries)):
                yield entries[:i] + entries[i + 1:]
            for i, e in enumerate(entries):
                if len(e) > 1:
                    yield entries[:i] + [[e[0]]] + entries[i + 1:]
                    for v in variants(e[1]):
                        yield entries[:i] + [[e[0], v]] + entries[i + 1:]
                if isinstance(e[0], str) and len(e[0]) > 1:
                    yield entries[:i] + [[e[0][:len(e[0]) // 2]] + e[1:]] + \
                        entries[i + 1:]
        for v in variants(st[0][1] if len(st[0]) > 1 else []):
            yield {'kind': 'codec', 'state': [[st[0][0], v]]}
        return
    h = case['history']
    for i in range(len(h)):
        c = copy.deepcopy(case)
        del c['history'][i]
        yield c
    for i, op in enumerate(h):
        for k in ('stale', 'loss', 'foreign'):
            if k in op:
                c = copy.deepcopy(case)
                del c['history'][i][k]
                yield c
    if case.get('bare'):
        for i in range(len(case['bare'])):
            c = copy.deepcopy(case)
            del c['bare'][i]
            yield c
    for k in list(case['opts']):
        if k != 'src':
            c = copy.deepcopy(case)
            del c['opts'][k]
            yield c

    def subtrees(t):
        idx, tid, kids = t
        for i in range(len(kids)):
            yield [idx, tid, kids[:i] + kids[i + 1:]]
        for i, k in enumerate(kids):
            for v in subtrees(k):
                yield [idx, tid, kids[:i] + [v] + kids[i + 1:]]
        if isinstance(tid, str) and len(tid) > 1:
            yield [idx, tid[:max(1, len(tid) // 2)], kids]
    for t in subtrees(case['tree']):
        # keep sibling ids unique
        def ok(n):
            ids = [str(k[1]) for k in n[2]]
            return len(ids) == len(set(ids)) and all(ok(k) for k in n[2])
        if ok(t):
            c = copy.deepcopy(case)
            c['tree'] = t
            yield c
