"""C12 -- lazy sequences: a batched dtml-in pulls only the window plus one
look-ahead batch; unbatched rendering pulls every element exactly once.

Simulated component: the *producer* behind the sequence (iterator, generator,
iterable-only object, memoising lazy sequence).  It counts pulls, can be
unbounded, can end early and can fail at pull k.  System under test: the real
DT_In / DT_InSV.opt / SequenceFromIter.
"""
import hashlib
import re

from . import core

PROP = 'C12'
LEVEL = 'exploration'
STEP_UNIT = 'producer pulls (successful next()/index productions)'
CHUNK = 256      # consecutive runs per forked child (core.worker)
CASE_TIMEOUT = 60
TIERS = {'quick': (300000, 150), 'thorough': (4000000, 1800)}
PROBES = ['rendered_before_with_other_parameters', 'guard_refused_element',
          'sized_iterable_producer', 'false_reverse_expr',
          'rendered_again_from_the_body',
          'previous_batches_evaluated', 'unbounded_rendered', 'fault_fired', 'window_past_end',
          'lookahead_probe_reached', 'else_rendered', 'prev_lookback_overpull',
          'lazyseq_len_called', 'start_beyond_stream', 'prev_flag', 'next_flag',
          'no_push_item', 'body_names_the_sequence_again',
          'iterator_that_rewinds_after_its_end',
          'elements_lacking_the_attribute']
RULE = ('seeded sampling of (start,end in -1..16; size -1..7; orphan 0..4; '
        'overlap 0..3; literal or via variable; previous/next flag; item '
        'kind; name or expr source; no_push_item; unbatched loops whose body '
        'loops over the same name again) x producer (generator, generator '
        'function, iterator, iterable-only object, memoising lazy sequence; '
        'length 0..14 or unbounded; optional failure at pull k).  A case is '
        'non-trivial when the producer holds more elements than the bound '
        'window+size+orphan allows to pull (so the bound constrains the '
        'run), or a producer fault fired, or it is an unbatched run over '
        '>= 2 elements.  distinct = distinct case hash.')
ASSUMPTIONS = [
    'bound = W + size_eff + orphan with W = max(last displayed element '
    'number, requested window end) and size_eff as documented (explicit '
    'size; else end+1-start when both given; else 7)',
    'sort, reverse, sequence-length, next-batches and statistics are not used '
    '(excepted by the property)',
    'order of index probes on subscriptable lazies is not asserted, only the '
    'highest element produced',
    'what happens to the rendering after a producer failure is not asserted '
    '(the property is silent); the pull bound still is',
]


class StreamOverrun(BaseException):
    pass


class EA(Exception):
    pass


class Counter:
    def __init__(self, n, fail_at, cap):
        self.n, self.fail_at, self.cap = n, fail_at, cap
        self.pulls = 0        # successful productions, over all passes
        self.pos = 0          # next element of the current pass
        self.passes = 0
        self.attempts = 0
        self.fault_fired = 0
        self.len_called = 0
        self.eof_seen = 0

    def produce(self, mk):
        """Produce element number self.pulls (0-based) or signal the end."""
        self.attempts += 1
        if self.fault_fired:
            # a failed producer is dead (as a generator is after raising):
            # the property is silent about producers that recover
            self.eof_seen += 1
            return StopIteration
        if self.fail_at is not None and self.attempts == self.fail_at:
            self.fault_fired += 1
            raise EA('producer failed at pull %d' % self.attempts)
        if self.n is not None and self.pos >= self.n:
            self.eof_seen += 1
            return StopIteration
        if self.pulls >= self.cap:
            raise StreamOverrun('pulled %d elements' % (self.pulls + 1))
        i = self.pos
        self.pos += 1
        self.pulls += 1
        return mk(i)

    def restart(self):
        """a re-iterable source (a query object, a dictionary view, a
        function returning a fresh generator) starts again at the first
        element every time it is asked for an iterator; the pull count goes
        on"""
        self.passes += 1
        self.pos = 0


class Obj:
    def __init__(self, v):
        self.v = v


class Bare:
    """an element without the attribute the others have"""
    w = 1


def make_item(kind):
    def mk(i):
        tok = 'e%d' % i
        if kind == 'str':
            return tok
        if kind == 'obj':
            return Obj(tok)
        if kind == 'map':
            return {'v': tok}
        if kind == 'sparse':
            # mixed content: only every 40th element has the attribute
            return Obj(tok) if i % 40 == 0 else Bare()
        return ('k%d' % i, Obj(tok))    # pair
    return mk


class Iter:
    def __init__(self, c, mk):
        self.c, self.mk = c, mk

    def __iter__(self):
        return self

    def __next__(self):
        r = self.c.produce(self.mk)
        if r is StopIteration:
            raise StopIteration
        return r


class RewindIter(Iter):
    """an iterator that misbehaves after its end: once it has signalled
    StopIteration, the next call starts again at the first element (a cursor
    that re-executes its query).  Whoever stops asking at the first
    StopIteration never notices."""
    ended = False

    def __next__(self):
        if self.ended:
            self.ended = False
            self.c.restart()
            self.c.rewinds = getattr(self.c, 'rewinds', 0) + 1
        r = self.c.produce(self.mk)
        if r is StopIteration:
            self.ended = True
            raise StopIteration
        return r


class IterableOnly:
    def __init__(self, c, mk):
        self.c, self.mk = c, mk

    def __iter__(self):
        self.c.restart()
        return Iter(self.c, self.mk)


class SizedIterable(IterableOnly):
    """a paged result set: knows its size without producing anything, but
    has no subscription"""

    def __len__(self):
        return self.c.n


class SizedCollection(SizedIterable):
    """the same with a membership test: a collections.abc.Collection (like a
    BTrees set or a keys view over a cursor)"""

    def __contains__(self, x):
        return False


def gen(c, mk):
    while True:
        r = c.produce(mk)
        if r is StopIteration:
            return
        yield r


class LazySeq:
    """Memoising lazy sequence with __getitem__ and __len__ (like a ZCatalog
    LazyMap): producing is the expensive part and is what is counted."""

    def __init__(self, c, mk):
        self.c, self.mk = c, mk
        self.data = []
        self.done = False

    def __getitem__(self, i):
        if i < 0:
            i += len(self)
        while not self.done and i >= len(self.data):
            r = self.c.produce(self.mk)
            if r is StopIteration:
                self.done = True
            else:
                self.data.append(r)
        return self.data[i]

    def __len__(self):
        self.c.len_called += 1
        while not self.done:
            r = self.c.produce(self.mk)
            if r is StopIteration:
                self.done = True
            else:
                self.data.append(r)
        return len(self.data)


PARAMS = ('start', 'end', 'size', 'orphan', 'overlap')


def gen_case(seed, tier):
    r = core.stream(seed, 'c12')
    batched = r.random() < 0.85
    case = {'batched': batched, 'params': {}, 'flag': None,
            'src': r.choice(['name', 'name', 'expr']),
            'items': r.choice(['str', 'obj', 'map', 'pair']),
            'prefix': r.choice([None, None, None, 'p']),
            'else': r.random() < 0.5}
    big = r.random() < 0.15      # swarm: windows far into the stream
    case['extras'] = sorted(x for x in ('number', 'letter', 'even', 'var',
                                        'first', 'last', 'prevbatches',
                                        'nextvar')
                            if r.random() < 0.2)
    if batched:
        def val(lo, hi):
            if big and hi > 7 and r.random() < 0.7:
                hi = r.choice([40, 150, 400])
            return [r.choice(['lit', 'lit', 'var', 'svar']), r.randint(lo, hi)]
        chosen = [p for p in ('start', 'end', 'size') if r.random() < 0.55]
        if not chosen:
            chosen = [r.choice(['start', 'end', 'size'])]
        for p in chosen:
            case['params'][p] = val(-1, 16) if p != 'size' else val(-1, 7)
        if r.random() < 0.5:
            case['params']['orphan'] = val(0, 4)
        if r.random() < 0.5:
            case['params']['overlap'] = val(0, 3)
        f = r.random()
        case['flag'] = 'previous' if f < 0.12 else 'next' if f < 0.24 else None
    kind = r.choice(['gen', 'genfunc', 'iter', 'iterable', 'lazyseq',
                     'sized', 'rewind'])
    unbounded = batched and r.random() < 0.3 and kind not in ('sized',
                                                              'rewind')
    case['collection'] = core.stream(seed, 'c12coll').random() < 0.5
    case['ifwrap'] = (case['src'] == 'name' and kind in (
        'gen', 'genfunc', 'iter', 'rewind', 'iterable') and
        core.stream(seed, 'c12ifwrap').random() < 0.2)
    if batched and r.random() < 0.06:
        case['items'] = 'sparse'
        if r.random() < 0.8:
            case['extras'] = sorted(set(case['extras']) | {
                r.choice(['last', 'last', 'first'])})
    # a reverse_expr that evaluates false asks for no reversal
    case['revexpr'] = r.choice([None] * 6 + [0, '', None])
    case['has_revexpr'] = r.random() < 0.15
    n = None if unbounded else r.choice([0, 1, 2, 3, 5, 8, 13, 14,
                                         r.randint(0, 14), r.randint(0, 40)])
    if big and n is not None and r.random() < 0.7:
        n = r.randint(0, 700)
    fail_at = None
    if r.random() < 0.2:
        fail_at = r.randint(1, 20) if not big else r.randint(1, 450)
    case['producer'] = {'kind': kind, 'n': n, 'fail_at': fail_at}
    # the same cooked template rendered once before, with other (larger)
    # values of the batch parameters that are given by name
    case['pre'] = None
    # (only start / end / size, and only upwards: overlap >= size makes the
    # batch navigation loop for ever, a C11 matter kept out of the way)
    byname = [p for p, (how, v) in case['params'].items()
              if how != 'lit' and p in ('start', 'end', 'size')]
    if byname and 'overlap' not in case['params'] and r.random() < 0.4:
        case['pre'] = {p: max(case['params'][p][1], 0) + r.randint(3, 9)
                       for p in byname}
    # ... or while this one is at its first item (re-entrant render of the
    # same template object, from the body)
    case['reenter'] = None
    rr = core.stream(seed, 'c12reenter')
    if byname and 'overlap' not in case['params'] and rr.random() < 0.3:
        case['reenter'] = {p: max(case['params'][p][1], 0) + rr.randint(3, 9)
                           for p in byname}
    # no_push_item, and a body that names the sequence again (a nested loop
    # over the same lazily produced sequence): the elements are still pulled
    # once only
    case['npi'] = r.random() < 0.15
    if case['npi']:
        case['items'] = 'str'
    case['renest'] = None
    want_renest = not batched and case['src'] == 'name' and \
        r.random() < 0.3 and r.choice(['plain', 'npi', 'npi'])
    if want_renest and n is not None and n <= 40:
        case['renest'] = want_renest       # (n*n inner iterations)
    # a security guard that refuses some elements (fault kind guard.deny)
    case['guard'] = None
    if r.random() < 0.12:
        case['guard'] = {'deny': sorted(r.sample(range(0, 12),
                                                 r.choice([1, 1, 2, 3]))),
                         'skip': r.random() < 0.7}
    return case


def source_of(case):
    a = []
    a.append('seq' if case['src'] == 'name' else 'expr="seq2"')
    for p in PARAMS:
        if p in case['params']:
            how, v = case['params'][p]
            a.append('%s=%s' % (p, v if how == 'lit' else 'v_' + p))
    if case['flag']:
        a.append(case['flag'])
    if case['items'] == 'map':
        a.append('mapping')
    if case['prefix']:
        a.append('prefix=%s' % case['prefix'])
    if case.get('has_revexpr'):
        a.append('reverse_expr="rv0"')
    if case.get('guard') and case['guard']['skip']:
        a.append('skip_unauthorized')
    if case.get('npi'):
        a.append('no_push_item')
    kind = case['items']
    if case['flag'] == 'previous':
        body = ('P<dtml-var previous-sequence-start-index>-'
                '<dtml-var previous-sequence-end-index>/'
                '<dtml-var previous-sequence-size>'
                '{<dtml-var sequence-step-start-index>}')
    elif case['flag'] == 'next':
        body = ('N<dtml-var next-sequence-start-index>-'
                '<dtml-var next-sequence-end-index>/'
                '<dtml-var next-sequence-size>'
                '{<dtml-var sequence-step-start-index>}')
    else:
        item = {'str': '<dtml-var sequence-item>', 'obj': '<dtml-var v>',
                'map': '<dtml-var v>', 'sparse': '<dtml-var v missing="-">',
                'pair': '<dtml-var v><dtml-var sequence-key>'}[kind]
        body = '[<dtml-var sequence-index>=%s]' % item
        ex = []
        P = {p: v[1] for p, v in case['params'].items()}
        for x in case.get('extras', ()):
            if x in ('number', 'letter', 'even'):
                ex.append('<dtml-var sequence-%s>' % x)
            elif kind != 'str' and x == 'var':
                ex.append('<dtml-var sequence-var-v>')
            elif kind != 'str' and x in ('first', 'last'):
                ex.append('<dtml-if %s-v>%s</dtml-if>' % (x, x[0]))
            elif x == 'nextvar' and case['batched']:
                # a "next page" link prepared at the first item
                ex.append('<dtml-if sequence-start><dtml-var '
                          'next-sequence-start-index missing="-">/<dtml-var '
                          'next-sequence-size missing="-"></dtml-if>')
            elif x == 'prevbatches' and case['batched'] and \
                    P.get('overlap', 0) < bound_of(case, 0)[1]:
                # (overlap >= size makes previous-batches loop for ever
                # without pulling: a C11 matter, kept out of the way)
                ex.append('<dtml-if sequence-start><dtml-in previous-batches '
                          'mapping>b<dtml-var batch-start-index>-'
                          '<dtml-var batch-end-index>;</dtml-in></dtml-if>')
        if ex:
            body += '(' + ','.join(ex) + ')'
        if case['prefix']:
            body += '(<dtml-var %s_index>)' % case['prefix']
        if case['batched']:
            body += ('{<dtml-var sequence-step-start-index>}'
                     '<dtml-if previous-sequence>p</dtml-if>'
                     '<dtml-if next-sequence>n'
                     '<dtml-var next-sequence-start-index></dtml-if>')
        body += '<dtml-if sequence-start>s</dtml-if>' \
                '<dtml-if sequence-end>e</dtml-if>'
        if case.get('renest'):
            body += '<dtml-in seq prefix=q%s%s>.</dtml-in>' % (
                ' no_push_item' if case['renest'] == 'npi' else '',
                ' skip_unauthorized' if case.get('guard') and
                case['guard']['skip'] else '')
    if case.get('reenter'):
        # the body sends off another request for the same template object
        # (a page that embeds its own "larger" view) at the first item
        body = '<dtml-call again>' + body
    src = '<dtml-in %s>%s' % (' '.join(a), body)
    if case['else']:
        src += '<dtml-else>EMPTY'
    src += '</dtml-in>'
    if case.get('ifwrap'):
        # the usual "only if there is something to show" wrapper: testing
        # an iterator for truth pulls nothing, and the loop inside gets the
        # very object the test saw
        src = '<dtml-if seq>%s</dtml-if>' % src
    return src


def bound_of(case, displayed_last):
    P = {p: v[1] for p, v in case['params'].items()}
    start, end, size = P.get('start', 0), P.get('end', 0), P.get('size', 0)
    orphan = P.get('orphan', 0)
    if size >= 1:
        size_eff = size
    elif start > 0 and end > 0 and end >= start:
        size_eff = end + 1 - start
    else:
        size_eff = 7
    if end > 0:
        req_end = max(end, start)
    elif start > 0:
        req_end = start + size_eff - 1
    else:
        req_end = size_eff
    W = max(displayed_last, req_end)
    return W + size_eff + orphan, size_eff, W


def run_case(case):
    from DocumentTemplate import HTML
    pr = case['producer']
    kind = pr['kind']
    src = source_of(case)
    probes = {}
    faults = {}

    def probe(n):
        probes[n] = probes.get(n, 0) + 1

    P = {p: v[1] for p, v in case['params'].items()}
    static_bound = bound_of(case, 0)[0] if case['batched'] else \
        (pr['n'] or 0)
    cap = max(static_bound, 64) + 128
    c = Counter(pr['n'], pr['fail_at'], cap)
    mk = make_item(case['items'])
    if kind == 'gen':
        seq = gen(c, mk)
    elif kind == 'genfunc':
        def seq():
            c.restart()
            return gen(c, mk)
    elif kind == 'iter':
        seq = Iter(c, mk)
    elif kind == 'rewind':
        seq = RewindIter(c, mk)
    elif kind == 'iterable':
        seq = IterableOnly(c, mk)
    elif kind == 'sized':
        seq = (SizedCollection if case.get('collection')
               else SizedIterable)(c, mk)
    else:
        seq = LazySeq(c, mk)
    ns = {'seq': seq, 'seq2': seq, 'rv0': case.get('revexpr')}
    if kind == 'genfunc':
        ns['seq2'] = seq()       # expressions get names uncalled
    for p, (how, v) in case['params'].items():
        if how == 'var':
            ns['v_' + p] = v
        elif how == 'svar':
            ns['v_' + p] = str(v)
    outcome, out = 'ok', ''
    overrun = False
    cls = HTML
    guard = case.get('guard')
    if guard:
        from DocumentTemplate.DT_Util import ValidationError
        deny = set(guard['deny'])

        class Guarded(HTML):
            def guarded_getattr(self, ob, name, *default):
                return getattr(ob, name, *default)

            def guarded_getitem(self, ob, index):
                v = ob[index]
                if isinstance(index, int) and index in deny:
                    faults['guard.deny'] = faults.get('guard.deny', 0) + 1
                    raise ValidationError('element %d refused' % index)
                return v
        cls = Guarded
    try:
        t = cls(src)
        if case.get('pre'):
            # earlier request on the same template object, own producer
            c0 = Counter(None if pr['n'] is None else max(pr['n'], 40), None,
                         10 ** 6)
            ns0 = dict(ns)
            ns0['seq'] = ns0['seq2'] = gen(c0, mk)
            for p_, v_ in case['pre'].items():
                ns0['v_' + p_] = v_
            try:
                t(None, ns0)
            except BaseException:
                pass
            probe('rendered_before_with_other_parameters')
        if case.get('reenter'):
            state = {'busy': False, 'done': False}

            def again():
                if not state['busy'] and not state['done']:
                    state['busy'] = state['done'] = True
                    c1 = Counter(None if pr['n'] is None else max(pr['n'],
                                                                  40),
                                 None, 10 ** 6)
                    ns1 = dict(ns)
                    ns1['seq'] = ns1['seq2'] = gen(c1, mk)
                    ns1['again'] = lambda: ''
                    for p_, v_ in case['reenter'].items():
                        ns1['v_' + p_] = v_
                    try:
                        t(None, ns1)
                    except BaseException:   # noqa: B902  (not this render)
                        pass
                    finally:
                        state['busy'] = False
                    probe('rendered_again_from_the_body')
                return ''
            ns['again'] = again
        out = t(None, ns)
        if not isinstance(out, str):
            out = repr(out)
    except StreamOverrun as e:
        outcome, overrun = 'overrun', True
        out = str(e)
    except BaseException as e:   # what propagates is not asserted
        outcome = 'exc:' + type(e).__name__
        out = ''
    violations = []
    disp = [(int(i), tok) for i, tok in re.findall(r'\[(\d+)=([^\]]*)\]',
                                                  out)]
    displayed_last = max([i + 1 for i, _ in disp], default=0)
    n = pr['n']
    if c.fault_fired:
        faults['stream.raise_mid'] = c.fault_fired
        probe('fault_fired')
    if n is None:
        faults['stream.unbounded'] = 1
        if outcome == 'ok':
            probe('unbounded_rendered')
    if c.eof_seen:
        faults['stream.eof'] = 1
    if c.len_called:
        probe('lazyseq_len_called')
    if 'EMPTY' in out:
        probe('else_rendered')
    if faults.get('guard.deny'):
        probe('guard_refused_element')
    if case['flag']:
        probe(case['flag'][:4] + '_flag')
    if kind == 'sized':
        probe('sized_iterable_producer')
    if case.get('npi'):
        probe('no_push_item')
    if case.get('renest'):
        probe('body_names_the_sequence_again')
    if c.passes > 1:
        probe('source_asked_for_an_iterator_again')
    if kind == 'rewind':
        probe('iterator_that_rewinds_after_its_end')
    if getattr(c, 'rewinds', 0):
        faults['stream.rewound_after_eof'] = c.rewinds
    if case['items'] == 'sparse':
        probe('elements_lacking_the_attribute')
    if case.get('has_revexpr'):
        probe('false_reverse_expr')
    if ';' in out and re.search(r'b\d+-\d+;', out):
        probe('previous_batches_evaluated')

    def viol(rule, key, **detail):
        detail.update(source=src, producer=pr, pulls=c.pulls,
                      outcome=outcome, output=out[:300])
        violations.append({'rule': rule, 'key': key, 'detail': detail})

    # in-order, at-most-once: the item shown with index i is element i
    for i, tok in disp:
        want = 'e%d' % i + ('k%d' % i if case['items'] == 'pair' else '')
        if case['items'] == 'sparse' and i % 40:
            want = '-'
        if tok != want:
            viol('order', 'order:index-item-mismatch', index=i, shown=tok)
            break
    nontrivial = []
    if case['batched']:
        bound, size_eff, W = bound_of(case, displayed_last)
        if P.get('start', 0) > 0 and n is not None and P['start'] > n:
            probe('start_beyond_stream')
        if n is not None and W > n:
            probe('window_past_end')
        if c.pulls > displayed_last and displayed_last:
            probe('lookahead_probe_reached')
        if overrun:
            viol('unbounded_overpull', 'overpull:unbounded', bound=bound)
        elif c.pulls > bound:
            m = re.search(r'\{(\d+)\}', out)
            step_start = int(m.group(1)) if m else None
            if step_start is None and displayed_last == 0:
                # nothing was displayed (every element of the window refused
                # by the guard): the window start follows from the request
                step_start = bound_of(case, 0)[2] - size_eff
            ov = P.get('overlap', 0)
            if step_start is not None and ov > size_eff + P.get('orphan', 0) \
                    and c.pulls == step_start + ov:
                probe('prev_lookback_overpull')
                viol('overpull', 'overpull:previous-batch-lookback',
                     bound=bound, step_start_index=step_start, overlap=ov)
            else:
                viol('overpull', 'overpull:other', bound=bound,
                     size_eff=size_eff, W=W)
        if n is None or n > bound or c.fault_fired:
            nontrivial.append(1)
    else:
        denied = set(guard['deny']) if guard else set()
        if guard and not guard['skip'] and any(d < (n or 0) for d in denied):
            pass        # the refusal propagates: nothing stated
        elif pr['fail_at'] is None or not c.fault_fired:
            if outcome != 'ok':
                viol('unbatched', 'unbatched:failed', n=n)
            elif c.pulls != n:
                viol('unbatched', 'unbatched:pull-count', n=n)
            elif [i for i, _ in disp] != [i for i in range(n)
                                          if i not in denied]:
                viol('unbatched', 'unbatched:not-all-rendered-once', n=n,
                     shown=[i for i, _ in disp])
            elif n == 0 and case['else'] and 'EMPTY' not in out:
                pass   # else semantics belong to C10, not asserted here
        if (n or 0) >= 2 or c.fault_fired:
            nontrivial.append(1)
    digest = hashlib.sha256(('%s|%s|%d|%d' % (outcome, out, c.pulls,
                                               c.attempts)).encode()
                            ).hexdigest()[:12]
    return {'violations': violations, 'steps': c.pulls, 'faults': faults,
            'probes': probes, 'nontrivial': nontrivial, 'digest': digest,
            'evaluations': 1}


def sample(case, res):
    return {'template': source_of(case), 'producer': case['producer'],
            'params': case['params'], 'pulls': res['steps']}


def shrink(case):
    import copy
    pr = case['producer']
    for kind in ('gen',):
        if pr['kind'] != kind:
            c = copy.deepcopy(case)
            c['producer']['kind'] = kind
            yield c
    if pr['fail_at'] is not None:
        c = copy.deepcopy(case)
        c['producer']['fail_at'] = None
        yield c
    if pr['n'] is not None and pr['n'] > 0:
        for n in (pr['n'] // 2, pr['n'] - 1):
            c = copy.deepcopy(case)
            c['producer']['n'] = n
            yield c
    for x in case.get('extras', ()):
        c = copy.deepcopy(case)
        c['extras'].remove(x)
        yield c
    for k in ('pre', 'guard', 'renest', 'npi'):
        if case.get(k):
            c = copy.deepcopy(case)
            c[k] = None
            yield c
    for k, v in (('flag', None), ('prefix', None), ('else', False),
                 ('items', 'str' if case['items'] != 'sparse' else 'sparse'),
                 ('src', 'name')):
        if case[k] != v:
            c = copy.deepcopy(case)
            c[k] = v
            yield c
    for p in list(case['params']):
        if len([q for q in case['params'] if q in ('start', 'end', 'size')]) \
                > 1 or p in ('orphan', 'overlap'):
            c = copy.deepcopy(case)
            del c['params'][p]
            yield c
        how, v = case['params'][p]
        if how != 'lit':
            c = copy.deepcopy(case)
            c['params'][p][0] = 'lit'
            yield c
        for nv in (1, v // 2, v - 8, v - 1):
            if 0 <= nv < v:
                c = copy.deepcopy(case)
                c['params'][p][1] = nv
                yield c
