"""C17 -- rendering is repeatable and side-effect free; templates survive
persistence.

Engine D (lifecycle simulator).  One template object lives through a seeded
history of operations and faults: render with input set i, render in which a
call-back fails, process restart (pickle round trip: only durable state
survives), restart from a snapshot taken by a call-back in the middle of a
render, deep copy, munge to another source / other defaults, cook, var(),
default(), and -- for file-backed classes, reading through an in-memory file
system bound to DT_String.os / DT_String.open -- file rewritten, removed, I/O
error on the next read.  Reference: after every step the result must equal
what a FRESHLY CONSTRUCTED template built from the modelled (class, source or
file content at cook time, defaults, vars, encoding) returns for an equal copy
of the same inputs: the property's own definition, the real code is its own
oracle, so only history-dependent behaviour can differ.
"""
import copy
import hashlib
import io
import pickle
import re

from collections import UserList

from . import core
from . import env as E
from . import model as M

PROP = 'C17'
LEVEL = 'exploration'
STEP_UNIT = 'history operations (render, failed render, restart, copy, edit, file change)'
CHUNK = 16      # consecutive runs per forked child (core.worker)
CASE_TIMEOUT = 300
TIERS = {'quick': (48000, 170), 'thorough': (2000000, 2400)}
PROBES = ['file_template_munged_to_other_file',
          'file_template_munged_to_same_file', 'render_after_restart', 'render_after_munge',
          'render_after_failed_render', 'render_after_other_inputs',
          'render_after_deepcopy', 'restart_mid_render',
          'sort_expr_differs_between_renders', 'bytes_text_mix_after_restart',
          'file_changed_but_cooked_version_served',
          'file_reread_after_restart', 'file_missing_then_restored',
          'file_ioerror_then_retry', 'nested_template_in_defaults_restarted',
          'vars_set_then_rendered', 'defaults_changed_then_rendered',
          'munge_with_new_defaults', 'generated_program_family',
          'string_syntax_family', 'return_value_not_text',
          'render_raised_same_as_fresh', 'restart_of_uncooked_template',
          'munge_raced_with_a_render', 'munge_blocked_on_the_compile_lock',
          'source_that_does_not_compile']
RULE = ('histories of 1-12 operations on one template object of class HTML, '
        'String, HTMLFile or File; sources are either compositions of '
        'hand-written fragments (sort / sort_expr / reverse_expr / batching / '
        'statistics / let / with / try / if / raise / return / nested '
        'sub-template in the defaults / bytes-text mixing) or programs of '
        'generator A run against the scripted environment.  An evaluation is '
        'one history.  Non-trivial: a history containing a render after at '
        'least one of {restart, munge, failed render, render with a '
        'different input set, deep copy, file change}; distinct = distinct '
        'case hash.')
ASSUMPTIONS = [
    'process restart is modelled as pickle.loads(pickle.dumps(t)); the file '
    'system is an in-memory fake bound to DT_String.os / DT_String.open',
    'the reference is the real code itself on a freshly constructed '
    'template; behaviour that is wrong in a history-independent way is '
    'invisible here by construction (other properties)',
    'a file template keeps serving its cooked source until restart / cook / '
    'munge, as its docstring says; the reference models exactly this',
    'torn or short reads of the template file are not injected (the '
    'property does not speak about them)',
]


# ------------------------------------------------------------ file system

class FS:
    """in-memory file system with a logical clock for modification times"""

    def __init__(self, files=None, faults=None, mtimes=None, clock=1000.0):
        self.files = dict(files or {})
        self.faults = dict(faults or {})
        self.mtimes = dict(mtimes or {})
        self.clock = clock
        self.reads = 0
        self.fired = []
        for n in self.files:
            self.mtimes.setdefault(n, self.clock)

    def clone(self):
        return FS(self.files, self.faults, self.mtimes, self.clock)

    def write(self, p, content, same_mtime=False):
        if not same_mtime or p not in self.mtimes:
            self.clock += 1.0
            self.mtimes[p] = self.clock
        self.files[p] = content

    def remove(self, p):
        self.files.pop(p, None)
        self.mtimes.pop(p, None)

    def exists(self, p):
        return p in self.files

    def _need(self, p):
        if p not in self.files:
            self.fired.append('fs.missing')
            raise FileNotFoundError(2, 'No such file or directory', p)

    def getmtime(self, p):
        self._need(p)
        return self.mtimes[p]

    def getsize(self, p):
        self._need(p)
        return len(self.files[p].encode('utf-8'))

    def open(self, p, *a, **k):
        if self.faults.get(p):
            self.faults[p] -= 1
            self.fired.append('fs.ioerror')
            raise OSError(5, 'simulated I/O error', p)
        self._need(p)
        self.reads += 1
        return io.StringIO(self.files[p])


class _Stat:
    def __init__(self, fs, p):
        self.st_mtime = fs.getmtime(p)
        self.st_mtime_ns = int(self.st_mtime * 1e9)
        self.st_size = fs.getsize(p)
        self.st_mode = 0o100644


class _Path:
    """os.path as DT_String sees it: questions about files are answered by
    the simulated file system, pure path arithmetic by the real module"""

    def __init__(self, router):
        self._r = router

    def exists(self, p):
        return self._r.cur.exists(p)

    isfile = lexists = exists

    def isdir(self, p):
        return False

    def getmtime(self, p):
        return self._r.cur.getmtime(p)

    getctime = getmtime

    def getsize(self, p):
        return self._r.cur.getsize(p)

    def __getattr__(self, n):
        import os.path
        return getattr(os.path, n)


class Router:
    """what DT_String sees as os / open / print"""

    def __init__(self):
        self.cur = FS()
        self.path = _Path(self)

    def open(self, p, *a, **k):
        return self.cur.open(p, *a, **k)

    def stat(self, p, *a, **k):
        return _Stat(self.cur, p)

    lstat = stat

    def __getattr__(self, n):
        import os
        return getattr(os, n)


ROUTER = Router()


def bind_fs():
    from DocumentTemplate import DT_String
    DT_String.os = ROUTER
    DT_String.open = ROUTER.open
    DT_String.print = lambda *a, **k: None


# ------------------------------------------------------------- fragments

FRAGS = [
    # 0 sort_expr / reverse_expr evaluated per render
    '<dtml-in seq sort_expr="sk" reverse_expr="rv"><dtml-var hook>'
    '<dtml-var a>:<dtml-var n>,</dtml-in>',
    # 1 same list sorted twice, differently, and reversed
    '<dtml-in seq reverse><dtml-var a></dtml-in>/'
    '<dtml-in seq sort=n,a><dtml-var a></dtml-in>/'
    '<dtml-in seq sort=a/nocase/desc><dtml-var a></dtml-in>',
    # 2 batching through variables
    '<dtml-in seq sort=a start=st size=sz orphan=0><dtml-var hook>'
    '<dtml-var sequence-number>=<dtml-var a>;'
    '<dtml-if sequence-end>(<dtml-var next-sequence>|'
    '<dtml-var previous-sequence>)</dtml-if></dtml-in>',
    # 3 text / bytes mixing
    '<dtml-var x>|<dtml-var b>|<dtml-var x html_quote>',
    # 4 let / with
    '<dtml-let y=x z="n2*2"><dtml-with obj><dtml-var a>-<dtml-var y>-'
    '<dtml-var z></dtml-with></dtml-let>',
    # 5 try / except
    '<dtml-try><dtml-var hook><dtml-var missing><dtml-except KeyError>'
    'caught <dtml-var error_type></dtml-try>',
    # 6 conditionals
    '<dtml-if c>yes<dtml-var c><dtml-elif x>x<dtml-else>no</dtml-if>',
    # 7 statistics and first/last
    '<dtml-in seq><dtml-var hook><dtml-if sequence-start>[</dtml-if>'
    '<dtml-var a><dtml-if sequence-end>]<dtml-var total-n>/'
    '<dtml-var count-n>/<dtml-var max-n></dtml-if></dtml-in>',
    # 8 return a caller object
    '<dtml-if c><dtml-return seq></dtml-if>',
    # 9 nested template kept in the defaults
    '{<dtml-var sub>}',
    # 10 raise
    '<dtml-unless c><dtml-raise ValueError>bad <dtml-var x></dtml-raise>'
    '</dtml-unless>',
    # 11 formats
    '<dtml-var n2 fmt="%05d"> <dtml-var x upper> <dtml-var x size=3 '
    'etc="~">',
    # 12 defaults and vars
    '<<dtml-var dflt>|<dtml-var vv missing="-">>',
    # 13 sort_expr with batching and the next flag
    '<dtml-in seq sort_expr="sk" size=sz><dtml-var a>'
    '<dtml-if sequence-end>+<dtml-var sequence-length></dtml-if></dtml-in>',
    # 14 expressions
    '<dtml-var expr="_.len(seq)">.<dtml-var expr="n2 + 1">.'
    '<dtml-in expr="_.range(n2)"><dtml-var sequence-item></dtml-in>',
    # 15 mapping keyword
    '<dtml-in mseq mapping sort_expr="sk"><dtml-var a>=<dtml-var n> '
    '</dtml-in>',
    # 16 more var modifiers (non-simple var tags)
    '<dtml-var x url_quote>;<dtml-var x newline_to_br spacify>;'
    '<dtml-var n2 thousands_commas>;<dtml-var c null="NULL">;'
    '<dtml-var x sql_quote lower>',
    # 17 prefix, no_push_item, keyed items
    '<dtml-in seq prefix=p><dtml-var p_index>:<dtml-with p_item>'
    '<dtml-var a></dtml-with> </dtml-in><dtml-in pairs><dtml-var hook>'
    '<dtml-var sequence-key>=<dtml-var sequence-item>,</dtml-in>',
    # 18 batch with orphan / next flag and batch navigation (no overlap:
    # overlap >= size makes next-batches loop for ever, a C11 matter)
    '<dtml-in seq sort=n reverse size=sz orphan=1 start=st>'
    '<dtml-var a><dtml-if sequence-end><dtml-in next-batches mapping>'
    '(<dtml-var batch-start-index>-<dtml-var batch-end-index>)</dtml-in>'
    '</dtml-if></dtml-in><dtml-in seq size=sz start=st next>'
    'N<dtml-var next-sequence-start-number></dtml-in>',
    # 19 entity syntax and implicit expression
    '&dtml-x;|&dtml.url_quote-x;|<dtml-var "x + _.str(n2)">',
    # 20 with / let over computed namespaces
    '<dtml-with expr="_.namespace(q=x, r=n2)"><dtml-let a2=q b2="r+1" '
    'c2=a2><dtml-var a2>.<dtml-var b2>.<dtml-var c2></dtml-let></dtml-with>',
    # 21 try / finally, try / else
    '<dtml-try><dtml-try><dtml-var hook><dtml-var x><dtml-finally>F'
    '</dtml-try><dtml-except>X<dtml-else>E</dtml-try>',
    # 22 grouping and more statistics
    '<dtml-in seq sort=n><dtml-if first-n>{<dtml-var n>:</dtml-if>'
    '<dtml-var a><dtml-if last-n>}</dtml-if><dtml-if sequence-end>'
    '<dtml-var median-n>/<dtml-var min-a>/<dtml-var sequence-var-a>'
    '</dtml-if></dtml-in>',
    # 24 an expression that needs one of its names only sometimes
    '<dtml-var expr="c or zz">;<dtml-var expr="zz if not c else x">',
    # 23 unless / call / comment
    '<dtml-unless c>U<dtml-var x></dtml-unless><dtml-call hook>'
    '<dtml-comment>never <dtml-var nothing></dtml-comment>',
    # 25 a comparison function looked up by name in the namespace of the
    # render (sort=key/NAME), literally and through sort_expr
    '<dtml-in seq sort="a/cmpf"><dtml-var a>,</dtml-in>;'
    '<dtml-in mseq mapping sort_expr="sk2"><dtml-var a>,</dtml-in>',
    # 27 a computed exception class, several handlers, in a loop and once
    # more afterwards
    '<dtml-in seq><dtml-try><dtml-raise expr="exc"><dtml-var a>'
    '</dtml-raise><dtml-except KeyError>K<dtml-var error_value>'
    '<dtml-except ValueError LookupError>V<dtml-except>O'
    '<dtml-var error_type></dtml-try></dtml-in>|<dtml-try><dtml-raise '
    'expr="exc">m</dtml-raise><dtml-except LookupError>L<dtml-except>o'
    '</dtml-try>',
    # 28 tags that render nothing, between literal text
    'pre<dtml-comment>hidden <dtml-var x></dtml-comment>mid<dtml-call hook>'
    'post:<dtml-var x>',
    # 30 a keyword default whose name starts with an underscore (legal as
    # a keyword default, never taken from a mapping)
    '[<dtml-var _u missing="-">]',
    # 29 an exception object kept in the template's defaults (shared by
    # every render) whose argument takes its time to turn into text
    'E:<dtml-var shexc missing="-">;',
    # 26 a sort_expr that may give no key at all, with reverse
    '<dtml-in seq sort_expr="sk" reverse><dtml-var a>;</dtml-in>|'
    '<dtml-in pairs sort_expr="sk3" reverse_expr="rv">'
    '<dtml-var sequence-key>;</dtml-in>',
]
HTML_ONLY = ('<dtml-var expr=', '&dtml', '<dtml-var "')
SUB_SRC = '<dtml-in seq sort_expr="sk"><dtml-var a></dtml-in><dtml-var dflt>'


def to_string_syntax(src):
    """the same template in the %(...)x syntax of the String class"""
    def rep(m):
        close, name, args = m.group(1), m.group(2), (m.group(3) or '').strip()
        if close:
            return '%%(%s)]' % name
        if name == 'var':
            return '%%(%s)s' % args
        return '%%(%s%s)[' % (name, (' ' + args) if args else '')
    return re.sub(r'<(/?)dtml-([a-z]+)((?:\s+(?:[^>"]|"[^"]*")*)?)>', rep, src)


class Rec:
    def __init__(self, name, **kw):
        self._name = name
        self.__dict__.update(kw)

    def __repr__(self):
        return '<rec %s>' % self._name


SORT_SPECS = ['a', 'n', 'n,a', 'a/nocase', 'n/cmp/desc,a', 'a/cmp/desc',
              'n,a/nocase/desc', '', 'a/cmpf', 'n,a/cmpf/desc', None]


def _c(x, y):
    return (x > y) - (x < y)


def cmp_rev(x, y):
    return _c(y, x)


def cmp_digits(x, y):
    return _c(str(x)[1:], str(y)[1:])


def cmp_nocase_rev(x, y):
    return _c(str(y).lower(), str(x).lower())


CMPF = {'rev': cmp_rev, 'digits': cmp_digits, 'ncrev': cmp_nocase_rev}
EXCS = {'KeyError': KeyError, 'ValueError': ValueError,
        'IndexError': IndexError, 'TypeError': TypeError}


def gen_inputs(r):
    n = r.choice([0, 1, 3, 4, 5])
    recs = [[r.choice('abcdeABCD') + str(i), r.randint(0, 3)]
            for i in range(n)]
    return {'recs': recs, 'sk': r.choice(SORT_SPECS), 'rv': r.choice([0, 1]),
            'st': r.choice([1, 2, 3]), 'sz': r.choice([1, 2, 3]),
            'x': r.choice(['x<y', 'plain', 'Zed&', 'café']),
            'b': r.choice(['', '62', 'c3a9', 'e9']),
            'n2': r.choice([0, 2, 7]), 'c': r.choice([0, 1, 'c', '']),
            'via': r.choice(['kw', 'mapping', 'client', 'clients',
                             'dictclient', 'dictclient_kw']),
            'zz': r.choice([None, None, 'Z', 'zz2']),
            'cmpf': r.choice(sorted(CMPF)),
            'sk2': r.choice(['a/cmpf', 'a/cmpf/desc', 'n,a/cmpf', 'a']),
            'sk3': r.choice([None, None, '']),
            'exc': r.choice(sorted(EXCS)),
            'seqkind': r.choice(['list', 'list', 'list', 'userlist'])}


class Hook:
    """the call-back inside hand-written templates: may fail, or snapshot
    (pickle) the template in the middle of a render"""

    def __init__(self, plan, template=None):
        self.plan, self.template = plan or {}, template
        self.n = 0
        self.snap = None
        self.fired = []

    def __call__(self):
        self.n += 1
        a = self.plan.get(str(self.n))
        if a == 'raise':
            self.fired.append('cb.raise')
            raise E.EA('hook fault #%d' % self.n)
        if a == 'snapshot' and self.snap is None:
            self.fired.append('restart_mid_render')
            if self.template is not None:
                self.snap = pickle.dumps(self.template)
        return ''


def build_inputs(spec, plan, template):
    """fresh, equal copies of one input set -> (client, mapping, kw, hook,
    containers to watch for mutation)"""
    seq = [Rec('r%d' % i, a=a, n=n) for i, (a, n) in enumerate(spec['recs'])]
    if spec.get('seqkind') == 'userlist':
        # a list-like caller object that keeps its items in an attribute
        # (collections.UserList, persistent lists)
        seq = UserList(seq)
    mseq = [{'a': a, 'n': n} for a, n in spec['recs']]
    hook = Hook(plan, template)
    data = {'seq': seq, 'mseq': mseq,
            'pairs': [(a, n) for a, n in spec['recs']],
            'sk': spec['sk'], 'rv': spec['rv'],
            'st': spec['st'], 'sz': spec['sz'], 'x': spec['x'],
            'b': bytes.fromhex(spec['b']), 'n2': spec['n2'], 'c': spec['c'],
            'obj': Rec('obj', a='oa', n=9), 'hook': hook,
            'cmpf': CMPF[spec.get('cmpf', 'rev')],
            'sk2': spec.get('sk2', 'a'), 'sk3': spec.get('sk3', ''),
            'exc': EXCS[spec.get('exc', 'KeyError')]}
    if spec.get('zz') is not None:
        data['zz'] = spec['zz']
    watch = [seq, mseq, data, data['pairs']] + mseq + \
        [o.__dict__ for o in seq]
    via = spec['via']
    if via == 'kw':
        return None, None, data, hook, watch      # t(**kw)
    if via == 'mapping':
        return None, data, {}, hook, watch
    if via in ('dictclient', 'dictclient_kw'):
        # a plain dict where an object is expected: legal, and it
        # contributes nothing (its keys are not attributes)
        cd = {'vv': 'cd-' + spec['x'], 'dflt': 'cd'}
        watch.append(cd)
        if via == 'dictclient_kw':
            return cd, None, data, hook, watch      # no mapping argument
        return cd, data, {}, hook, watch
    client = Rec('client', **data)
    watch.append(client.__dict__)
    if via == 'clients':
        # a path of client objects: the last one is looked at first
        outer = Rec('outer', x='outer-x', c='outer-c', vv='outer-vv')
        watch.append(outer.__dict__)
        return (outer, client), None, {}, hook, watch
    return client, None, {}, hook, watch          # t(client)


def call(t, client, mapping, kw):
    """t(client, mapping, **kw); a mapping of None stands for 'no mapping
    argument given' (the template then uses its own default)"""
    if mapping is None:
        return t(client, **kw)
    return t(client, mapping, **kw)


def snapshot(watch):
    out = []
    for c in watch:
        if isinstance(c, dict):
            out.append((c, list(c.items())))
        else:
            out.append((c, list(c)))
    return out


def mutated(snap):
    for c, before in snap:
        now = list(c.items()) if isinstance(c, dict) else list(c)
        if len(now) != len(before):
            return 'length of %s changed' % type(c).__name__
        for x, y in zip(now, before):
            if isinstance(c, dict):
                if x[0] != y[0] or x[1] is not y[1]:
                    return 'dict entry %r changed' % (y[0],)
            elif x is not y:
                return 'list order / elements changed'
    return None


# --------------------------------------------------------------- generator

CLASSES = ['HTML', 'HTML', 'HTML', 'String', 'HTMLFile', 'HTMLFile', 'File']


def gen_source(r, string_syntax=False):
    k = r.choice([1, 2, 2, 3])
    pool = [i for i in range(len(FRAGS))
            if not (string_syntax and any(h in FRAGS[i] for h in HTML_ONLY))]
    return ''.join(FRAGS[i] + r.choice(['', ' ', '\n'])
                   for i in r.sample(pool, k))


def gen_program(r):
    from . import c08
    enabled = [k for k in c08.ALL_KINDS if r.random() < 0.6
               and k not in ('sub',)]
    for must in ('var', r.choice(['in', 'with', 'let', 'try', 'if'])):
        if must not in enabled:
            enabled.append(must)
    if 'tree' in enabled and r.random() < 0.6:
        enabled.remove('tree')
    g = c08.Gen(r, enabled, r.choice([1, 2, 3]), r.choice([1, 2, 3]))
    body = g.body(0, minn=1)
    # sentinels are plain call-backs here
    return {'src': E.body_src(body), 'script': g.script, 'req': g.req,
            'names': sorted(set(E.all_sites(body)))}


# sources that do not compile: [dtml syntax, %(..)s syntax]; the first two
# are rejected by the parser, the others by the Python compiler (SyntaxError)
BAD_SUFFIXES = [
    ['<dtml-if x>', '%(if x)['],
    ['</dtml-in>', '%(in x)]'],
    ['<dtml-var expr="1 +">', '%(var expr="1 +")s'],
    ['<dtml-in seq sort_expr="1 +"></dtml-in>',
     '%(in seq sort_expr="1 +")[%(in)]'],
    ['<dtml-if expr="(">x</dtml-if>', '%(if expr="(")[x%(if)]'],
]


def gen_case(seed, tier):
    r = core.stream(seed, 'c17')
    cls = r.choice(CLASSES)
    family = 'gen' if (cls in ('HTML', 'HTMLFile') and r.random() < 0.35) \
        else 'hand'
    nsrc = r.choice([1, 2, 3])
    if family == 'gen':
        sources = [gen_program(r) for _ in range(nsrc)]
    else:
        sources = [{'src': gen_source(r, cls in ('String', 'File'))}
                   for _ in range(nsrc)]
        if nsrc > 1 and r.random() < 0.2:
            sources[r.randrange(1, nsrc)] = {'src': ''}     # edited to empty
    is_file = cls in ('HTMLFile', 'File')
    inputs = [gen_inputs(r) for _ in range(3)]
    ops = []
    n = r.randint(1, 12)
    kinds = ['render'] * 6 + ['render_fail', 'restart', 'restart', 'deepcopy',
                              'snapshot', 'cook', 'var', 'default', 'munge',
                              'munge']
    if is_file:
        kinds += ['fs_write', 'fs_write', 'fs_remove', 'fs_ioerror',
                  'restart', 'munge_file']
    elif r.random() < 0.4:
        kinds += ['munge_race']
    # swarm: a random subset of the non-render kinds
    allowed = {k for k in sorted(set(kinds)) if r.random() < 0.7} | {'render'}
    kinds = [k for k in kinds if k in allowed]
    for _ in range(n):
        k = r.choice(kinds)
        if k == 'render':
            ops.append(['render', r.randrange(3)])
        elif k in ('render_fail', 'snapshot'):
            ops.append([k, r.randrange(3), r.choice([1, 1, 2, 3])])
        elif k == 'munge':
            ops.append(['munge', r.randrange(nsrc),
                        r.choice([None, None, {'dflt': 'D2'}, {},
                                  {'dflt': 'D3', 'sk': 'a'}])])
        elif k == 'munge_race':
            ops.append(['munge_race', r.randrange(3), r.randrange(nsrc),
                        r.randint(0, 10 ** 9)])
        elif k == 'var':
            ops.append(['var', r.choice(['vv', 'x', 'sk']),
                        r.choice(['V', 'n', 'w&'])])
        elif k == 'default':
            ops.append(['default', r.choice(['dflt', 'vv', 'c']),
                        r.choice(['dd', 1, ''])])
        elif k == 'fs_write':
            ops.append(['fs_write', r.randrange(nsrc),
                        1 if r.random() < 0.3 else 0])
        else:
            ops.append([k])
    ops.append(['render', r.randrange(3)])
    return {'cls': cls, 'family': family, 'sources': sources,
            'inputs': inputs, 'ops': ops, 'start': 0,
            'encoding': r.choice([None, None, 'utf-8', 'latin-1']),
            'via_mapping': core.stream(seed, 'c17map').random() < 0.3,
            'bad_suffix': core.stream(seed, 'c17bad').choice(BAD_SUFFIXES)
            if core.stream(seed, 'c17badp').random() < 0.03 else None,
            'defaults': dict(r.choice([{'dflt': 'D'}, {'dflt': 'D', 'c': 1},
                                       {}]), **({'_u': 'U'} if core.stream(
                                           seed, 'c17und').random() < 0.3
                                           else {})),
            'with_sub': r.random() < 0.6}


# ------------------------------------------------------------------ runner

FNAME = '/sim/templates/t0.dtml'
FNAME2 = '/sim/templates/other.dtml'
MARK = 'UNIQUE-CONTENT-MARKER-7f3a'


def src_text(case, j):
    s = case['sources'][j]['src']
    if case['cls'] in ('String', 'File') and case['family'] == 'hand':
        s = to_string_syntax(s)
    if case.get('bad_suffix'):
        s += case['bad_suffix'][0 if case['cls'] in ('HTML', 'HTMLFile')
                                else 1]
    return s + ('<!-- %s -->' % MARK if case['cls'] in ('HTMLFile', 'File')
                else '')


def construct(case, state, fs):
    """a freshly constructed template from the modelled state"""
    import DocumentTemplate as DT
    cls = getattr(DT, case['cls'])
    d = build_defaults(case, state['defaults'], state['with_sub'])
    ROUTER.cur = fs
    m = None
    if case.get('via_mapping'):
        # the defaults come as the constructor's mapping argument
        m, d = d, {}
    if case['cls'] in ('HTMLFile', 'File'):
        # (re-editing a file template to another file does not rename it:
        # the name it was created with stays in its error messages)
        t = cls(state.get('fname', FNAME), m, __name__=FNAME, **d)
    elif state['encoding']:
        t = cls(state['src'], m, encoding=state['encoding'], **d)
    else:
        t = cls(state['src'], m, **d)
    if state['vars']:
        t.var(**state['vars'])
    return t


def build_defaults(case, spec, with_sub):
    import DocumentTemplate as DT
    d = dict(spec)
    if with_sub:
        sub_cls = DT.HTML
        d['sub'] = sub_cls(SUB_SRC, dflt='sd')
    return d


def norm_exc(e):
    return ['raise', type(e).__name__,
            re.sub(r'0x[0-9a-fA-F]+', '0x', str(e))[:300]]


class Env17(E.RunEnv):
    def __init__(self, script, plan, template):
        E.RunEnv.__init__(self, script, plan)
        self.template = template
        self.snap = None
        self.created = []

    def raise_fault(self, f, name, k):
        if f['kind'] == 'snapshot':
            if self.snap is None and self.template is not None:
                self.snap = pickle.dumps(self.template)
            return
        return E.RunEnv.raise_fault(self, f, name, k)

    def materialise(self, r, name, k):
        from . import c08
        if isinstance(r, dict) and 'treeroot' in r:
            return c08.TNode(self, name, r['treeroot'])
        v = E.RunEnv.materialise(self, r, name, k)
        if isinstance(v, list):
            self.created.append((v, list(v)))
        return v


def call_template(case, t, j, i, plan, actual):
    """one render of template t (source j) with input set i -> outcome,
    mutation report, snapshot bytes, fired faults"""
    from . import c08
    fired = []
    snap = None
    if case['family'] == 'gen':
        s = case['sources'][j]
        env = Env17(s['script'], plan, t if actual else None)
        env.shift = i
        env.extra_names = {'X_EA': E.EA, 'X_EAB': E.EAB, 'URL': 'http://h/p',
                           'RESPONSE': c08.Resp()}
        env.extra_names.update(s.get('req', {}))
        kw = env.namespace(s['names'])
        try:
            res = t(None, {'pre1': 1}, **kw)
            out = ['val', M.describe(res)]
        except Exception as e:
            out = norm_exc(e)
        mut = None
        for lst, before in env.created:
            if len(lst) != len(before) or any(
                    x is not y for x, y in zip(lst, before)):
                mut = 'list handed out by a call-back changed'
        fired = ['cb.' + f['kind'] for _, _, f in env.fired]
        return out, mut, env.snap, fired, len(env.log)
    client, mapping, kw, hook, watch = build_inputs(
        case['inputs'][i], plan, t if actual else None)
    snapw = snapshot(watch)
    try:
        res = call(t, client, mapping, kw)
        out = ['val', M.describe(res)]
    except Exception as e:
        out = norm_exc(e)
    return out, mutated(snapw), hook.snap, hook.fired, hook.n


def same_defaults(t, case, state):
    want = dict(state['defaults'])
    got = {k: v for k, v in t.globals.items() if k != 'sub'}
    if got != want:
        return 'template defaults are %r, expected %r' % (got, want)
    if dict(t._vars) != state['vars']:
        return 'template vars are %r, expected %r' % (dict(t._vars),
                                                      state['vars'])
    return None


def run_case(case):
    bind_fs()
    is_file = case['cls'] in ('HTMLFile', 'File')
    probes, faults = {}, {}
    violations = []

    def probe(n):
        probes[n] = probes.get(n, 0) + 1

    def viol(rule, key, detail, step):
        detail = dict(detail)
        detail['step'] = step
        detail['op'] = case['ops'][step] if step is not None else None
        detail['class'] = case['cls']
        violations.append({'rule': rule, 'key': key, 'detail': detail})

    tolerated = (OSError, FileNotFoundError)
    if case.get('bad_suffix'):
        # a source that does not compile: every operation that compiles
        # fails, the same way every time
        from DocumentTemplate.DT_Util import ParseError
        tolerated += (ParseError, SyntaxError)
        probe('source_that_does_not_compile')
    fs = FS({FNAME: src_text(case, case['start']),
             FNAME2: src_text(case, (case['start'] + 1) % len(
                 case['sources']))} if is_file else {})
    if case.get('via_mapping'):
        # defaults handed over as the constructor's mapping argument: names
        # that start with an underscore are not taken from a mapping
        case = dict(case, defaults={k: v for k, v in case['defaults'].items()
                                    if k[:1] != '_'})
    state = {'src': None if is_file else src_text(case, case['start']),
             'j': case['start'], 'cooked': None, 'cooked_j': None,
             'defaults': dict(case['defaults']), 'vars': {},
             'encoding': case['encoding'], 'file_j': case['start'],
             'with_sub': bool(case.get('with_sub')), 'failed_cook': None,
             'fname': FNAME,
             'file_js': {FNAME: case['start'], FNAME2: (case['start'] + 1)
                         % len(case['sources'])}}
    t = construct(case, state, fs)
    since = set()       # what happened since the last successful render
    last_input = None
    steps = 0
    dg = hashlib.sha256()
    nontrivial = False

    def effective(state):
        """(file system, source index) a fresh template must be built on to
        stand for the template as it is now"""
        if not is_file:
            return FS(), state['j']
        if state['cooked'] is not None:
            return FS({state['fname']: state['cooked']}, None, fs.mtimes,
                      fs.clock), state['cooked_j']
        return fs.clone(), state['file_js'][state['fname']]

    def note_cook(ok):
        if is_file:
            if ok and state['fname'] in fs.files:
                state['cooked'] = fs.files[state['fname']]
                state['cooked_j'] = state['file_js'][state['fname']]
            # a cook that failed to read leaves the previous compiled
            # state (if any) in place

    def do_render(step, i, plan):
        nonlocal t, last_input, nontrivial
        ref_fs, j = effective(state)
        will_cook = is_file and state['cooked'] is None
        fresh = construct(case, state, ref_fs)
        want, _, _, _, _ = call_template(case, fresh, j, i, plan, False)
        ROUTER.cur = fs
        fired_before = len(fs.fired)
        got, mut, snap, fired, n = call_template(case, t, j, i, plan, True)
        for f in fired + fs.fired[fired_before:]:
            faults[f] = faults.get(f, 0) + 1
        dg.update(repr((step, got)).encode())
        if will_cook:
            cooked_ok = not (got[0] == 'raise' and got[1] in (
                'OSError', 'FileNotFoundError') + ((
                    'ParseError', 'SyntaxError') if case.get('bad_suffix')
                    else ()))
            note_cook(cooked_ok)
            if not cooked_ok:
                state['failed_cook'] = got[1]
            elif state['failed_cook']:
                probe('file_ioerror_then_retry'
                      if state['failed_cook'] == 'OSError'
                      else 'file_missing_then_restored')
                state['failed_cook'] = None
            if cooked_ok and 'restart' in since and 'fs_write' in since:
                probe('file_reread_after_restart')
        elif is_file and 'fs_write' in since:
            probe('file_changed_but_cooked_version_served')
        if got != want:
            viol('render', 'render:after:%s' % '+'.join(sorted(since) or
                                                         ['nothing']),
                 {'got': got, 'fresh_template': want, 'input_set': i,
                  'plan': plan, 'since_last_render': sorted(since),
                  'source': src_text(case, j)[:1200]}, step)
        if mut:
            viol('caller_data', 'caller_data', {'what': mut, 'input_set': i,
                 'source': src_text(case, j)[:1200]}, step)
        bad = same_defaults(t, case, state)
        if bad:
            viol('template_defaults', 'template_defaults', {'what': bad}, step)
        if got[0] == 'raise':
            probe('render_raised_same_as_fresh')
        elif got[1][0] != 'str':
            probe('return_value_not_text')
        failed = bool(fired) and got[0] == 'raise'
        if since:
            nontrivial = True
        for k_, p_ in (('restart', 'render_after_restart'),
                       ('munge', 'render_after_munge'),
                       ('failed', 'render_after_failed_render'),
                       ('deepcopy', 'render_after_deepcopy'),
                       ('var', 'vars_set_then_rendered'),
                       ('default', 'defaults_changed_then_rendered'),
                       ('munge_defaults', 'munge_with_new_defaults')):
            if k_ in since:
                probe(p_)
        if last_input is not None and last_input != i:
            probe('render_after_other_inputs')
            nontrivial = True
            if case['family'] == 'hand' and case['inputs'][i]['sk'] != \
                    case['inputs'][last_input]['sk'] and \
                    'sort_expr' in src_text(case, j):
                probe('sort_expr_differs_between_renders')
        if 'restart' in since and case['family'] == 'hand' and \
                case['inputs'][i]['b'] not in ('', '62') and \
                '<dtml-var b>' in case['sources'][j]['src']:
            probe('bytes_text_mix_after_restart')
        if 'restart' in since and state['with_sub'] and \
                'sub>' in src_text(case, j):
            probe('nested_template_in_defaults_restarted')
        since.clear()
        if failed:
            since.add('failed')
        last_input = i
        return snap

    def check_pickle(step, blob, obj):
        st = obj.__getstate__()
        bad = [k for k in st if k[:3] in ('_v_', '_p_')]
        if bad:
            viol('pickle_state', 'pickle_state:volatile_keys',
                 {'keys': bad}, step)
        if is_file:
            if state['fname'].encode() not in blob:
                viol('pickle_state', 'pickle_state:no_file_name', {}, step)
            if MARK.encode() in blob:
                viol('pickle_state', 'pickle_state:file_content_pickled',
                     {}, step)

    for step, op in enumerate(case['ops']):
        if violations:
            break
        steps += 1
        k = op[0]
        ROUTER.cur = fs
        if k == 'render':
            do_render(step, op[1], {})
        elif k == 'render_fail':
            plan = ({'1': 'raise'} if case['family'] == 'hand' else None)
            if case['family'] == 'hand':
                plan = {str(op[2]): 'raise'}
            else:
                names = [n for n in case['sources'][
                    effective(state)[1]]['names']]
                plan = {names[op[2] % len(names)]: {
                    '1': {'kind': 'raise', 'exc': 'EA'}}} if names else {}
            do_render(step, op[1], plan)
        elif k == 'snapshot':
            if case['family'] == 'hand':
                plan = {str(op[2]): 'snapshot'}
            else:
                names = case['sources'][effective(state)[1]]['names']
                plan = {names[op[2] % len(names)]: {
                    '1': {'kind': 'snapshot'}}} if names else {}
            snap = do_render(step, op[1], plan)
            if snap is not None:
                check_pickle(step, snap, t)
                t = pickle.loads(snap)
                state['cooked'] = None
                since.add('restart')
                probe('restart_mid_render')
                faults['restart_mid_render'] = faults.get(
                    'restart_mid_render', 0) + 1
        elif k == 'restart':
            if not hasattr(t, '_v_cooked'):
                probe('restart_of_uncooked_template')
            blob = pickle.dumps(t)
            check_pickle(step, blob, t)
            t = pickle.loads(blob)
            state['cooked'] = None
            since.add('restart')
            faults['restart'] = faults.get('restart', 0) + 1
        elif k == 'deepcopy':
            t = copy.deepcopy(t)
            state['cooked'] = None
            since.add('deepcopy')
        elif k == 'cook':
            try:
                t.cook()
                note_cook(True)
            except tolerated:
                note_cook(False)
            since.add('cook')
        elif k == 'munge':
            j, newd = op[1], op[2]
            try:
                if is_file:
                    if newd is not None:
                        t.munge(None, dict(newd))
                    elif j % 2:
                        # re-edit naming the same file again (its content
                        # may have changed meanwhile): read again
                        t.munge(state['fname'])
                        probe('file_template_munged_to_same_file')
                    else:
                        t.munge()
                else:
                    if newd is not None:
                        t.munge(src_text(case, j), dict(newd))
                    else:
                        t.munge(src_text(case, j))
                ok = True
            except tolerated:
                ok = False
            if not is_file:
                state['src'], state['j'] = src_text(case, j), j
            if newd is not None:
                state['defaults'] = dict(newd)
                state['vars'] = {}
                since.add('munge_defaults')
                # initvars replaced the defaults: the nested template is
                # gone from them as well
                state['with_sub'] = False
            note_cook(ok)
            since.add('munge')
        elif k == 'munge_race':
            # an editor's munge() arrives while a request is being rendered
            # (possibly the first one after a restart, which compiles): two
            # real threads under the seeded scheduler of engine B.  Whatever
            # the request gets, once both are done the template is the
            # re-edited one
            from . import sched as S
            rs = core.stream(op[3], 'c17race')
            jj = effective(state)[1]
            newsrc = src_text(case, op[2])

            def request(i=op[1], jj=jj, t=t):
                return call_template(case, t, jj, i, {}, True)

            def editor(t=t, newsrc=newsrc):
                t.munge(newsrc)
            segs = []
            for _ in range(rs.choice([1, 1, 2, 3, 6])):
                segs.append([rs.randrange(2), rs.choice(
                    [rs.randrange(1, 60), rs.randrange(1, 600),
                     rs.randrange(1, 4000)])])
            sim = S.Sim([request, editor], S.SegmentPolicy(segs),
                        3 * 10 ** 6, wall_s=120)
            sim.run()
            steps += sim.steps
            if sim.harness_error:
                raise RuntimeError(sim.harness_error)
            if sim.abort:
                viol('race', 'race:' + sim.abort,
                     {'segments': segs, 'what': 'render || munge'}, step)
            out = sim.th[1].outcome
            if out and out[0] == 'exc' and not isinstance(out[1], tolerated):
                viol('race', 'race:munge-raised',
                     {'segments': segs, 'error': repr(out[1])}, step)
            state['src'], state['j'] = newsrc, op[2]
            since.add('munge')
            if any(w_ and not w_.startswith(('finished',))
                   for (_f, w_, _t) in sim.switches[:-1]):
                probe('munge_raced_with_a_render')
                faults['sched.preemption'] = faults.get(
                    'sched.preemption', 0) + 1
            if sim.lock_blocks:
                probe('munge_blocked_on_the_compile_lock')
        elif k == 'munge_file':
            # a file template pointed at another file
            new = FNAME2 if state['fname'] == FNAME else FNAME
            state['fname'] = new
            try:
                t.munge(new)
                note_cook(True)
            except tolerated:
                pass
            since.add('munge')
            probe('file_template_munged_to_other_file')
        elif k == 'var':
            t.var(**{op[1]: op[2]})
            state['vars'][op[1]] = op[2]
            since.add('var')
        elif k == 'default':
            t.default(**{op[1]: op[2]})
            state['defaults'][op[1]] = op[2]
            since.add('default')
        elif k == 'fs_write':
            same = len(op) > 2 and bool(op[2])
            fs.write(state['fname'], src_text(case, op[1]), same_mtime=same)
            state['file_j'] = op[1]
            state['file_js'][state['fname']] = op[1]
            since.add('fs_write')
            fk = 'fs.changed_same_mtime' if same else 'fs.changed'
            faults[fk] = faults.get(fk, 0) + 1
        elif k == 'fs_remove':
            fs.remove(state['fname'])
            since.add('fs_missing')
        elif k == 'fs_restore':
            fs.write(state['fname'], src_text(case, state['file_j']))
        elif k == 'fs_ioerror':
            fs.faults[state['fname']] = 1
            since.add('fs_ioerror')
        else:
            raise AssertionError(op)
        if k == 'fs_remove':
            # the file comes back two operations later at the latest
            pass
    if case['family'] == 'gen':
        probe('generated_program_family')
    elif case['cls'] in ('String', 'File'):
        probe('string_syntax_family')
    return {'violations': violations[:1], 'steps': steps, 'faults': faults,
            'probes': probes, 'nontrivial': [1] if nontrivial else [],
            'digest': dg.hexdigest()[:12], 'evaluations': 1}


def sample(case, res):
    return {'class': case['cls'], 'family': case['family'],
            'source_0': case['sources'][0]['src'][:400],
            'ops': case['ops'], 'encoding': case['encoding']}


# ---------------------------------------------------------------- shrinking

def shrink(case):
    ops = case['ops']
    for i in range(len(ops)):
        yield dict(case, ops=ops[:i] + ops[i + 1:])
    for i, op in enumerate(ops):
        if op[0] in ('render_fail', 'snapshot'):
            yield dict(case, ops=ops[:i] + [['render', op[1]]] + ops[i + 1:])
        if op[0] == 'munge' and op[2] is not None:
            yield dict(case, ops=ops[:i] + [['munge', op[1], None]] +
                       ops[i + 1:])
    if case.get('with_sub'):
        yield dict(case, with_sub=False)
    if case['encoding']:
        yield dict(case, encoding=None)
    if case['defaults']:
        yield dict(case, defaults={})
    if case['cls'] != 'HTML' and case['family'] == 'hand':
        yield dict(case, cls='HTML')
    if case['family'] == 'hand':
        for j, s in enumerate(case['sources']):
            parts = [f for f in FRAGS if f in s['src']]
            if len(parts) > 1:
                for p in parts:
                    srcs = list(case['sources'])
                    srcs[j] = {'src': s['src'].replace(p, '')}
                    yield dict(case, sources=srcs)
        for i, inp in enumerate(case['inputs']):
            if len(inp['recs']) > 1:
                for q in range(len(inp['recs'])):
                    ins = list(case['inputs'])
                    ins[i] = dict(inp, recs=inp['recs'][:q] +
                                  inp['recs'][q + 1:])
                    yield dict(case, inputs=ins)


def warmup():
    """import every lazily imported tag class in the main thread: the
    munge_race operation runs two threads under the scheduler, and an import
    (with its lock) must not happen there"""
    from . import c18
    c18.warmup()
