"""C20 demonstration: expand_all / collapse_all arriving together with a click.

A tiny "browser" drives <dtml-tree>: it keeps the tree-s cookie the tag
writes, follows only the expand/collapse links the tag itself generated and
issues collapse_all / expand_all requests.  As happens in a real browser,
the collapse_all / expand_all request is made from the page the last click
produced, so the query string of that page (tree-e=... or tree-c=...) is
still part of the request.

Property checked after every request:
  * rows shown == root's children plus, recursively, the children of every
    node currently expanded, depth first;
  * every node with children carries exactly one link and it toggles it;
  * the tree-s cookie written describes exactly the same expanded set.
"""
import re
import sys

from DocumentTemplate.DT_HTML import HTML
from TreeDisplay import TreeTag


class Node:
    def __init__(self, id, *children):
        self.id = id
        self.children = list(children)

    def tpId(self):
        return self.id

    def tpValues(self):
        return list(self.children)


class Response:
    cookie = None

    def setCookie(self, name, value, **kw):
        assert name == 'tree-s'
        self.cookie = value


ROOT = Node('root',
            Node('a', Node('a1', Node('a1x')), Node('a2')),
            Node('b', Node('b1')),
            Node('c'))

TEMPLATE = HTML('<dtml-tree root>[<dtml-var tpId>]</dtml-tree>')

ROW = re.compile(r'<tr>(.*?)</tr>', re.S)
LINK = re.compile(r'<a name="([^"]*)" href="[^?"]*\?tree-([ec])=([^#"]*)#')
LABEL = re.compile(r'\[([^\]]*)\]')


def expected_rows(node, path, expanded, out):
    for child in node.children:
        p = path + (child.id,)
        out.append(p)
        if p in expanded:
            expected_rows(child, p, expanded, out)
    return out


def cookie_set(cookie):
    """The set of expanded paths a tree-s cookie describes."""
    state = TreeTag.decode_seq(cookie)
    found = set()

    def walk(entries, path):
        for entry in entries:
            p = path + (entry[0],)
            found.add(p)
            if len(entry) > 1:
                walk(entry[1], p)
    assert state[0][0] == 'root', state
    if len(state[0]) > 1:
        walk(state[0][1], ('root',))
    return found


def find(path):
    node = ROOT
    for id in path[1:]:
        node = [c for c in node.children if c.id == id][0]
    return node


class Browser:
    def __init__(self):
        self.cookie = None
        self.query = {}      # query string of the page currently shown
        self.links = {}      # path -> (kind, value) on the current page

    def request(self, query, expanded, what):
        resp = Response()
        kw = dict(query)
        if self.cookie is not None:
            kw['tree-s'] = self.cookie
        html = TEMPLATE(root=ROOT, URL='http://x/index_html',
                        RESPONSE=resp, **kw)
        self.query = dict(query)
        self.cookie = resp.cookie
        self.check(html, resp.cookie, expanded, what)

    def check(self, html, cookie, expanded, what):
        want = expected_rows(ROOT, ('root',), expanded, [])
        rows = ROW.findall(html)
        shown = [LABEL.search(r).group(1) for r in rows]
        assert shown == [p[-1] for p in want], (
            '%s: rows shown %r, but the expanded set %r requires %r'
            % (what, shown, sorted(expanded), [p[-1] for p in want]))
        self.links = {}
        for path, row in zip(want, rows):
            links = LINK.findall(row)
            if find(path).children:
                assert len(links) == 1, (what, path, links)
                name, kind, value = links[0]
                assert tuple(TreeTag.decode_seq(value)) == path, (what, path)
                assert kind == ('c' if path in expanded else 'e'), (
                    '%s: node %r is %s but carries a tree-%s link'
                    % (what, path,
                       'expanded' if path in expanded else 'collapsed', kind))
                self.links[path] = (kind, value)
            else:
                assert not links, (what, path, links)
        assert cookie is not None, what
        assert cookie_set(cookie) == expanded, (
            '%s: cookie describes %r, expanded set is %r'
            % (what, sorted(cookie_set(cookie)), sorted(expanded)))

    # -- user actions ------------------------------------------------------
    def open(self):
        self.request({}, set(), 'first visit')

    def click(self, path, expanded):
        kind, value = self.links[path]
        if kind == 'e':
            expanded.add(path)
        else:
            for p in [p for p in expanded if p[:len(path)] == path]:
                expanded.discard(p)
        self.request({'tree-' + kind: value}, expanded,
                     'click tree-%s on %s' % (kind, '/'.join(path)))

    def collapse_all(self, expanded):
        # "?<current query string>&collapse_all=1"
        expanded.clear()
        q = dict(self.query)
        q.pop('expand_all', None)
        q['collapse_all'] = '1'
        self.request(q, expanded, 'collapse_all from a page reached by %r'
                     % sorted(self.query))

    def expand_all(self, expanded):
        expanded.clear()

        def walk(node, path):
            for c in node.children:
                if c.children:
                    expanded.add(path + (c.id,))
                    walk(c, path + (c.id,))
        walk(ROOT, ('root',))
        q = dict(self.query)
        q.pop('collapse_all', None)
        q['expand_all'] = '1'
        self.request(q, expanded, 'expand_all from a page reached by %r'
                     % sorted(self.query))


def main():
    A, A1, B = ('root', 'a'), ('root', 'a', 'a1'), ('root', 'b')

    # 1. plain histories (no overlap of *_all and a click)
    b = Browser()
    exp = set()
    b.open()
    b.click(A, exp)
    b.click(A1, exp)
    b.click(B, exp)
    b.click(A, exp)            # forgets a1 as well
    b.click(A, exp)
    assert exp == {A, B}
    b.query = {}               # user retypes the bare URL ...
    b.collapse_all(exp)        # ... and asks for collapse_all
    b.query = {}
    b.expand_all(exp)
    b.click(A1, exp)

    # 2. collapse_all issued from the page an expand click produced
    b = Browser()
    exp = set()
    b.open()
    b.click(A, exp)
    b.click(A1, exp)           # current page: ?tree-e=<root/a/a1>
    b.collapse_all(exp)        # nothing may stay expanded
    b.click(B, exp)

    # 3. expand_all issued from the page a collapse click produced
    b = Browser()
    exp = set()
    b.open()
    b.click(A, exp)
    b.click(B, exp)
    b.click(A, exp)            # current page: ?tree-c=<root/a>
    b.expand_all(exp)          # everything must be expanded, a included
    b.click(B, exp)

    print('OK')
    return 0


if __name__ == '__main__':
    sys.exit(main())
