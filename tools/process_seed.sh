#!/bin/sh
# usage: tools/process_seed.sh <out dir of sub-agent> <PROP> <new id> "<needs_to_manifest>"
# import + confirm (scratch worktree), then run the targeted quick check against a scratch copy
/verif/tools/import_seed.sh "$1" "$2" "$3" "$4"
SKIP_TESTS=1 /verif/tools/trymut.sh /verif/seeded/$3/patch.diff $2 quick > /tmp/trymut-$3.out 2>&1
echo "$3 -> $(tail -1 /tmp/trymut-$3.out) $(grep -c '^VIOLATION' /tmp/trymut-$3.out) violation lines; $(grep -m1 'rule=' /tmp/trymut-$3.out | cut -c1-160)"
