#!/bin/sh
# usage: tools/import_seed.sh <out dir of sub-agent> <PROP> <new id> "<needs_to_manifest>"
src=$1; prop=$2; id=$3; needs=$4
d=/verif/seeded/$id
mkdir -p $d
cp $src/patch.diff $src/demo.py $d/ ; cp $src/notes.md $d/ 2>/dev/null
res=$(/verif/tools/confirm_seed.sh $d)
echo "$res"
head=$(git -C /repo rev-parse --short HEAD)
python3 - "$d" "$prop" "$id" "$needs" "$res" "$head" <<'P'
import json,sys,re
d,prop,id_,needs,res,head=sys.argv[1:7]
m={'id':id_,'property':prop,'written_for':prop,'origin':'independent sub-agent given only the property text and a scratch worktree',
 'needs_to_manifest':needs,
 'confirmed':{'how':'tools/confirm_seed.sh in a scratch git worktree of /repo at %s (removed afterwards)'%head,
   'patch_applies':'APPLY-FAILED' not in res,
   'pinned_suite_with_patch':re.search(r'tests=\[(.*)\]',res).group(1),
   'demo_without_patch':'exit %s'%re.search(r'demo_clean=(\d+)',res).group(1),
   'demo_with_patch':'exit %s'%re.search(r'demo_patched=(\d+)',res).group(1)}}
json.dump(m,open(d+'/meta.json','w'),indent=1)
P
