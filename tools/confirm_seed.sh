#!/bin/sh
# usage: tools/confirm_seed.sh <dir with patch.diff demo.py> 
# Confirms in a scratch worktree of /repo (removed afterwards): patch applies to HEAD,
# pinned suite passes with it, demo fails with it and passes without it.
src=$(readlink -f "$1")
wt=$(mktemp -d /tmp/confirm.XXXXXX); rmdir "$wt"
git -C /repo worktree add -q --detach "$wt" HEAD || exit 9
res=""
( cd "$wt" && PYTHONPATH="$wt/src" PYTHONDONTWRITEBYTECODE=1 timeout 300 /venv/bin/python "$src/demo.py" >/dev/null 2>&1 ); res="$res demo_clean=$?"
git -C "$wt" apply "$src/patch.diff" || res="$res APPLY-FAILED"
t=$( cd "$wt" && PYTHONPATH="$wt/src" PYTHONDONTWRITEBYTECODE=1 timeout 900 /venv/bin/python -m pytest -q -p no:cacheprovider 2>&1 | tail -1 )
( cd "$wt" && PYTHONPATH="$wt/src" PYTHONDONTWRITEBYTECODE=1 timeout 300 /venv/bin/python "$src/demo.py" >/dev/null 2>&1 ); res="$res demo_patched=$?"
git -C /repo worktree remove --force "$wt"
echo "$src:$res tests=[$t]"
