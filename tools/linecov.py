"""usage: /venv/bin/python -B tools/linecov.py <PROP> [cases] [file-substring ...]

Reach measurement, not a check: runs the first <cases> quick cases of one
property in this process under sys.settrace and prints, per source file of the
package, the executable lines never executed -- the places the workload of
that check does not reach.  (C18 runs its cases in forked children; use the
property whose generator it borrows instead.)"""
import dis
import os
import sys

sys.path.insert(0, os.path.dirname(os.path.dirname(os.path.abspath(__file__))))
os.environ.setdefault('PYTHONHASHSEED', '0')
from sim import core  # noqa: E402


def executable_lines(path):
    src = open(path, encoding='utf-8').read()
    code = compile(src, path, 'exec')
    lines = set()
    todo = [code]
    while todo:
        c = todo.pop()
        for ins in dis.get_instructions(c):
            ln = getattr(ins, 'line_number', None)
            if ln is None and ins.starts_line and not isinstance(
                    ins.starts_line, bool):
                ln = ins.starts_line
            if ln:
                lines.add(ln)
        for k in c.co_consts:
            if hasattr(k, 'co_code'):
                todo.append(k)
    return lines


def main(argv):
    prop = argv[0].upper()
    n = int(argv[1]) if len(argv) > 1 else 300
    only = argv[2:]
    core.bootstrap()
    import importlib
    mod = importlib.import_module('sim.' + prop.lower())
    if hasattr(mod, 'warmup'):
        mod.warmup()
    src = os.path.realpath(os.path.join(core.REPO, 'src')) + os.sep
    hit = {}

    def local(frame, event, arg):
        if event == 'line':
            hit.setdefault(frame.f_code.co_filename, set()).add(frame.f_lineno)
        return local

    def glob(frame, event, arg):
        fn = frame.f_code.co_filename
        if fn.startswith(src) and '/tests/' not in fn:
            return local
        return None
    sys.settrace(glob)
    try:
        for i in range(n):
            seed = core.run_seed(core.base_seed(), mod.PROP, i)
            case = mod.gen_case(seed, 'quick')
            mod.run_case(case)
    finally:
        sys.settrace(None)
    for root, _, files in sorted(os.walk(src)):
        if 'tests' in root:
            continue
        for f in sorted(files):
            if not f.endswith('.py'):
                continue
            p = os.path.join(root, f)
            if only and not any(o in p for o in only):
                continue
            ex = executable_lines(p)
            h = hit.get(p, set())
            miss = sorted(ex - h)
            if not h:
                print('%-28s never entered (%d lines)' % (f, len(ex)))
                continue
            # compress to ranges
            out, start, prev = [], None, None
            for ln in miss:
                if start is None:
                    start = prev = ln
                elif ln <= prev + 2:
                    prev = ln
                else:
                    out.append((start, prev))
                    start = prev = ln
            if start is not None:
                out.append((start, prev))
            print('%-28s %4d/%4d lines run; not run: %s' % (
                f, len(ex & h), len(ex),
                ' '.join('%d' % a if a == b else '%d-%d' % (a, b)
                         for a, b in out)))


if __name__ == '__main__':
    main(sys.argv[1:])
