"""usage: tools/srconly.py <patch.diff>  -- drop hunks of files outside src/ (CHANGES.rst ...) in place"""
import re
import sys
p = sys.argv[1]
parts = re.split(r'(?m)^(?=diff --git )', open(p, encoding='utf-8').read())
keep = [x for x in parts if x.startswith('diff --git a/src/') or not x.startswith('diff --git')]
open(p, 'w', encoding='utf-8').write(''.join(keep))
print(p, len(parts), '->', len(keep))
