#!/bin/sh
# usage: tools/trymut.sh <patch.diff> <PROP> [tier]   (env VERIF_RUNS honoured)
# Applies the patch to a scratch copy of /repo (never to /repo itself), runs the
# pinned suite and the given check against the copy, removes the copy.
patch=$(readlink -f "$1"); prop=$2; tier=${3:-quick}
d=$(mktemp -d /tmp/vscratch.XXXXXX)
cp -r /repo/src /repo/setup.py /repo/setup.cfg "$d"/ 2>/dev/null
( cd "$d" && patch -p1 -s < "$patch" ) || { echo "PATCH-FAILED"; rm -rf "$d"; exit 9; }
if [ -z "$SKIP_TESTS" ]; then
( cd "$d" && PYTHONPATH="$d/src" PYTHONDONTWRITEBYTECODE=1 timeout 900 /venv/bin/python -m pytest -q -p no:cacheprovider src/DocumentTemplate/tests 2>&1 | tail -1 )
fi
VERIF_REPO="$d" VERIF_EVIDENCE_DIR="$d/evidence" timeout 3000 /verif/check "$prop" "$tier"
rc=$?
rm -rf "$d"
echo "exit=$rc"
exit $rc
