#!/usr/bin/env python3
"""Regenerate /verif/MANIFEST.json from the table below (keeps it valid)."""
import json, os
V = os.path.dirname(os.path.dirname(os.path.abspath(__file__)))
props = {json.loads(l)['id']: json.loads(l) for l in open(V + '/properties.jsonl')}

CLAIMED = {
 'C08': dict(engine='A-environment', level='fault_enumeration', ref='4 (C08)',
   technique='deterministic simulation: seeded DTML programs run against a scripted environment; exception / BaseException / dtml-return injected at every call-back site (first and last invocation, pairs), namespace snapshots taken by sentinel call-backs',
   text='Per generated program every single fault (site x first/last invocation x kind) is enumerated, plus seeded pairs; the oracle compares live namespace snapshots taken by sentinel call-backs before/after every block and the caller-owned TemplateDict before/after the whole call. Programs themselves are sampled, so this is enumeration of the fault space of sampled programs, not a proof.',
   note='Trusts CPython exception semantics and that __render_with_namespace__ hands the live TemplateDict to call-backs (existing seam). RecursionError at arbitrary depth and asynchronous exceptions between two lines are out of scope.'),
 'C09': dict(engine='A-environment', level='exploration', ref='4 (C09)',
   technique='deterministic simulation: conditional programs run against volatile / raising / armed-but-lazy scripted call-backs; recorded invocation history compared with a reference interpreter',
   text='Seeded exploration of condition chains x truth scripts x armed faults; oracle is the ordered invocation history and output of a small reference interpreter; under a fired fault the comparison is cut after it and resumed only when both runs reach the same enclosing dtml-try handler marker.',
   note='Trusts the reference interpreter for the conditional sub-language (second implementation, restricted to what C09 states).'),
 'C12': dict(engine='A-stream', level='exploration', ref='4 (C12)',
   technique='deterministic simulation of the sequence producer: counting, unbounded, early-ending and failing iterators / lazy sequences behind a batched dtml-in; pull-count bound checked per run',
   text='Seeded exploration of batch parameters x simulated producers; the oracle is the pull counter of the producer and the element numbers displayed, nothing else. One listed known finding (previous-batch look-back with overlap > size+orphan).',
   note='A failed producer is treated as dead (no recovery); sort/reverse/sequence-length/next-batches/statistics are excepted by the property and not used.'),
 'C14': dict(engine='A-environment', level='fault_enumeration', ref='4 (C14)',
   technique='deterministic simulation: try/except/else/finally/raise/return programs, exception class and raising position enumerated per program over a class hierarchy; outcome and marker history compared with a reference interpreter that uses Python\'s own try/except/finally',
   text='Per generated program every raising position x exception class is enumerated (plus seeded pairs and repeated renders of the same cooked template; a quarter of the programs run under the RestrictedDTML mix-in of the package inside a security context); oracle is the final outcome and the ordered history of part markers predicted by a reference interpreter whose control flow is Python\'s own.',
   note='Trusts the reference interpreter for the try/raise/return sub-language; non-Exception BaseExceptions and errors inside a raise body other than dtml-return are not asserted.'),
 'C17': dict(engine='D-lifecycle', level='exploration', ref='4 (C17)',
   technique='deterministic simulation of an object lifecycle: seeded histories of render / failed render / restart (pickle) / deepcopy / munge / munge racing with a render (two threads under the seeded scheduler) / cook / var / file change / file fault on an in-memory file system, checked step by step against a freshly constructed template',
   text='Seeded exploration of operation-and-fault histories; the reference is the real code itself on a fresh template built from the modelled (class, source, defaults, vars, file contents) tuple, so only history-dependent behaviour can differ.',
   note='Process restart is modelled as a pickle round trip; the file system is an in-memory fake bound to DT_String.os/open.'),
 'C18': dict(engine='B-scheduler', level='exploration', ref='4 (C18)',
   technique='deterministic simulation of caller threads: real threads run one at a time under a seeded baton-passing scheduler with sys.settrace pre-emption inside the package (every line; in a fifth of the cases also in front of every attribute / item store instruction) and simulated locks; per-thread results compared with solo runs',
   text='Seeded search over schedules (single and double pre-emption at every profile line, PCT, random walk, write-biased, race to the lock, hand-over after a write, split of a line in front of a store) of 2-3 threads on one shared template; differential oracle against the same call run alone on a fresh template in a forked child process.',
   note='Pre-emption granularity is the source line plus a yield inside every scripted call-back, and in store mode (20 % of the cases) the instruction in front of every attribute / item store; tracing every opcode of every frame crashes CPython 3.12.1 and is not used; C-level atomicity under the GIL is assumed.'),
 'C20': dict(engine='C-browser', level='exploration', ref='4 (C20)',
   technique='deterministic simulation of browser + network against the stateless dtml-tree server: seeded click histories with reload / stale-link / lost-cookie faults, checked against a set-of-expanded-paths model and page-cookie consistency',
   text='Seeded exploration of tree shapes x id alphabets x click histories x network faults; invariants checked after every response (codec round trip, page == state in cookie and nothing in the cookie beyond the page, one correct link per node, state evolution against a set model). One listed known finding (an id holding a high surrogate directly followed by a low one does not survive the JSON codec).',
   note='Rows and links are located by body markers and the tree-[ec]=TOKEN pattern only; truncated or corrupted cookies are not injected.'),
}
NA = {
 'C01': 'pure function of the template source text (lexer + join): no schedule, clock, fault, stream or history for a simulator to own',
 'C02': 'pure function of which sources define a name and of the static nesting; deciding it is enumeration of 63 source combinations, not fault/schedule search (block scoping on exceptional exits is covered by C08)',
 'C03': 'pure per-character function of a string value',
 'C04': 'pure function of (value, option subset); no environment interaction beyond a value object',
 'C05': 'guard answers are a fixed function of (object, name); finding a leak is enumeration of access channels, not fault or schedule search',
 'C06': 'pure function of the source string; its time bound is a performance claim, which deterministic simulation does not decide',
 'C07': 'pure function of the abstract program and its printer',
 'C10': 'pure function of (sequence, options); the lazy/stream part is C12',
 'C11': 'pure integer arithmetic over a bounded parameter box (exhaustive enumeration = model checking, excluded as the deciding step here)',
 'C13': 'pure function of (list, sort spec); non-mutation of caller data is re-checked inside C17',
 'C15': 'pure function of (value, options)',
 'C16': 'pure numeric function of a list',
 'C19': 'pure function of (text, encoding, insertion form)',
}
built = [p for p in CLAIMED if os.path.exists(V + '/sim/%s.py' % p.lower())]
checks = []
for p in sorted(built):
    c = CLAIMED[p]
    checks.append({
        'property_id': p,
        'quick_cmd': './check %s quick' % p,
        'thorough_cmd': './check %s thorough' % p,
        'evidence_file': 'evidence/%s.json' % p,
        'replay_cmd_template': './check replay {path}',
        'engine': c['engine'],
        'level_claimed': {'category': c['level'], 'text': c['text'], 'design_ref': 'DESIGN.md section ' + c['ref']},
        'level_note': c['note'],
        'technique': c['technique'],
    })
na = [{'property_id': p, 'reason': r} for p, r in sorted(NA.items())]
for p in sorted(CLAIMED):
    if p not in built:
        na.append({'property_id': p, 'reason': 'designed (DESIGN.md section 4) but its check is not built yet at this commit; not claimed until it is'})
m = {
 'version': 1,
 'setup_cmd': 'chmod +x /verif/check && /venv/bin/python -B -c "import sys; sys.path.insert(0, \'/repo/src\'); import DocumentTemplate, TreeDisplay, RestrictedPython"',
 'hooks': {'guard': 'DOCUMENTTEMPLATE_VERIF', 'enable': 'no source hooks exist: every seam (threading.Lock factory before import, DT_String.os/open, __render_with_namespace__, sys.settrace, iterator / REQUEST / RESPONSE arguments) is reached from outside the package; the variable is reserved and unused',
           'baseline_off_cmd': 'cd /repo && /venv/bin/python -m pytest -ra -q -p no:cacheprovider --timeout=900 --continue-on-collection-errors',
           'source_commits': [], 'add_only': True},
 'engines': [
   {'name': 'A-environment', 'path': 'sim/env.py', 'serves_properties': ['C08', 'C09', 'C14'], 'kind_free_text': 'scripted namespace call-backs (sites) with per-invocation responses and fault plans; DTML program generator; reference interpreter'},
   {'name': 'A-stream', 'path': 'sim/c12.py', 'serves_properties': ['C12'], 'kind_free_text': 'simulated sequence producers with pull counters and faults'},
   {'name': 'B-scheduler', 'path': 'sim/sched.py', 'serves_properties': ['C17', 'C18'], 'kind_free_text': 'seeded baton-passing scheduler for real threads, line-level and store-instruction pre-emption via sys.settrace, simulated locks (C17 uses it for its munge_race operation)'},
   {'name': 'C-browser', 'path': 'sim/c20.py', 'serves_properties': ['C20'], 'kind_free_text': 'browser, cookie jar and faulty network against the real dtml-tree tag'},
   {'name': 'D-lifecycle', 'path': 'sim/c17.py', 'serves_properties': ['C17'], 'kind_free_text': 'operation/fault histories with pickle restart and in-memory file system against a fresh-template reference'},
 ],
 'checks': checks,
 'not_applicable': na,
 'notes': 'All checks: ./check <property> quick|thorough (cwd /verif); exit 0 held, 1 VIOLATION (replay file under replays/), 2 harness error. VERIF_SEED selects the base seed. Fix commits in /repo: 2d359e1 72e22ca e754aab c0834ce c2d6673 6601b63 (see KNOWN_FINDINGS.txt). Seeded defects used for sensitivity are under seeded/ (243 confirmed changes, DESIGN.md 12.2), behaviour-preserving edits that must stay green under benign/; ./check selftest determinism|sensitivity re-run both catalogues.',
}
json.dump(m, open(V + '/MANIFEST.json', 'w'), indent=1)
print('claimed:', [c['property_id'] for c in checks])
